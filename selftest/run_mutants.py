#!/usr/bin/env python3
"""Must-fail / must-pass corpus: apply each small source edit to a scratch copy of /repo, run the
check of the property it targets, and compare with the expectation. Usage:
   run_mutants.py [--only ID-substring] [--prop Cxx] [-j N]
Scratch copies live under /tmp and are removed afterwards."""
import json, os, shutil, subprocess, sys, tempfile, argparse, concurrent.futures as cf
HERE = os.path.dirname(os.path.abspath(__file__))
ROOT = os.path.dirname(HERE)
REPO = os.environ.get("VERIF_REPO", "/repo")
ap = argparse.ArgumentParser()
ap.add_argument("--only"); ap.add_argument("--prop"); ap.add_argument("-j", type=int, default=3)
args = ap.parse_args()
muts = json.load(open(os.path.join(HERE, "mutants.json")))
env = dict(os.environ, GOFLAGS="-mod=mod", GOPROXY="off", GOSUMDB="off", GOTOOLCHAIN="local")

def run(m):
    if args.only and args.only not in m["id"]: return None
    if args.prop and args.prop != m["prop"]: return None
    d = tempfile.mkdtemp(prefix="vmut_", dir="/tmp")
    try:
        for f in os.listdir(REPO):
            if f.endswith(".go") or f in ("go.mod", "go.sum"):
                shutil.copy(os.path.join(REPO, f), d)
        for e in m["edits"]:
            p = os.path.join(d, e["file"]); s = open(p).read()
            if e["old"] not in s:
                return (m, "EDIT-NOT-APPLICABLE", "")
            s = s.replace(e["old"], e["new"], e.get("count", 1)); open(p, "w").write(s)
        b = subprocess.run(["go", "build", "./..."], cwd=d, env=env, capture_output=True, text=True)
        if b.returncode != 0:
            return (m, "DOES-NOT-COMPILE", b.stderr[-300:])
        out = os.path.join(d, "_out")
        r = subprocess.run([os.path.join(ROOT, "bin/govc"), "check", "-repo", d, "-verif", ROOT, "-prop", m["prop"], "-out", out, "-par", "6"],
                           cwd=ROOT, env=dict(env, VERIF_SPECS=os.path.join(ROOT, "specs")), capture_output=True, text=True)
        viol = [l for l in r.stdout.splitlines() if l.startswith("VIOLATION") or l.startswith("FAILED")]
        want = m.get("expect", "fail")
        if want == "fail":
            ok = r.returncode == 1 and (not m.get("obligation") or any(m["obligation"] in v for v in viol))
        else:
            ok = r.returncode == 0
        return (m, "OK" if ok else "UNEXPECTED", f"rc={r.returncode} " + " | ".join(v[:140] for v in viol[:3]) + ("" if r.returncode in (0,1) else r.stdout[-400:]))
    finally:
        shutil.rmtree(d, ignore_errors=True)

bad = 0
with cf.ThreadPoolExecutor(args.j) as ex:
    for res in ex.map(run, muts):
        if res is None: continue
        m, status, info = res
        print(f"{status:20s} {m['id']:45s} {m['prop']} expect={m.get('expect','fail')}  {info}")
        if status != "OK": bad += 1
print("mutants with unexpected outcome:", bad)
sys.exit(1 if bad else 0)
