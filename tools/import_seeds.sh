#!/bin/bash
# usage: import_seeds.sh <agent worktree> <property id>   -- confirm each OUT/<k> of a sub-agent and store it under seeded/<id>/<next n>
set -u
WT="$1"; ID="$2"
for K in 1 2 3; do
  SRC="$WT/OUT/$K"
  [ -f "$SRC/patch.diff" ] || continue
  N=1; while [ -e "/verif/seeded/$ID/$N" ] || [ -e "/tmp/import_lock_${ID}_$N" ]; do N=$((N+1)); done
  touch "/tmp/import_lock_${ID}_$N"
  /verif/tools/confirm_seeded.sh "$SRC" "$ID" "$N"
  rm -f "/tmp/import_lock_${ID}_$N"
done
