#!/usr/bin/env python3
"""Rewrite the table between <!-- claims-table-begin --> and <!-- claims-table-end --> in DESIGN.md from
tools/claims.json, known_findings.json and the committed evidence files."""
import json, os, re
ROOT = os.path.dirname(os.path.dirname(os.path.abspath(__file__)))
claims = json.load(open(os.path.join(ROOT, "tools", "claims.json")))
kf = json.load(open(os.path.join(ROOT, "known_findings.json")))
claimed = {c["id"]: c for c in claims["claimed"]}
na = {c["id"]: c for c in claims["not_applicable"]}
rows = []
for i in range(1, 31):
    pid = "C%02d" % i
    if pid in claimed:
        try: ev = json.load(open(os.path.join(ROOT, "evidence", pid + ".json")))
        except Exception: ev = {}
        fixed = [f["commit"] for f in kf["fixed"] if f["property"] == pid]
        known = [k["id"] for k in kf["known"] if k["property"] == pid]
        rows.append("| %s | proof (contracts, govc) | %s | %s | %s | %s |" % (pid, ev.get("coverage", {}).get("discharged", "?"), ev.get("wall_s", "?") if not isinstance(ev.get("wall_s"), float) else "%.0f s" % ev["wall_s"], ", ".join(fixed) or "-", ", ".join(known) or "-"))
    else:
        rows.append("| %s | not claimed (%s) | | | | |" % (pid, "not applicable" if pid in na else "not built"))
table = "| property | level | obligations discharged (quick) | wall | defects repaired (fix commits) | known findings |\n|---|---|---|---|---|---|\n" + "\n".join(rows) + "\n"
p = os.path.join(ROOT, "DESIGN.md")
s = open(p).read()
s2 = re.sub(r"(<!-- claims-table-begin -->\n).*?(<!-- claims-table-end -->)", lambda m: m.group(1) + table + m.group(2), s, flags=re.S)
open(p, "w").write(s2)
print(len(rows), "rows")
