#!/usr/bin/env python3
"""Regenerate /verif/MANIFEST.json from tools/claims.json (one entry per property)."""
import json, os, subprocess, sys
here = os.path.dirname(os.path.abspath(__file__))
root = os.path.dirname(here)
claims = json.load(open(os.path.join(here, "claims.json")))
props = [json.loads(l) for l in open(os.path.join(root, "properties.jsonl"))]
ids = [p["id"] for p in props]
hooks_commits = claims.get("hook_commits", [])
# every comment-only contract commit in /repo (message starts with "verif:") is a hook commit
try:
    out = subprocess.check_output(["git", "-C", "/repo", "log", "--format=%H %s", "--reverse"], text=True)
    for line in out.splitlines():
        sha, _, msg = line.partition(" ")
        if msg.startswith("verif:") and sha not in hooks_commits:
            hooks_commits.append(sha)
except Exception:
    pass
man = {
    "version": 1,
    "setup_cmd": "cd /verif/govc && GOFLAGS=-mod=mod GOPROXY=off GOSUMDB=off GOTOOLCHAIN=local go build -o /verif/bin/govc .",
    "hooks": {
        "guard": "verif",
        "enable": "go build tag 'verif' (-tags=verif): contract files /repo/zz_contracts_*_verif.go are comment-only and are read by govc; replay/bounded tests are injected with 'go test -overlay' and never written to /repo",
        "baseline_off_cmd": "cd /repo && go test -mod=mod -json -vet=off -count=1 -timeout 25m ./...",
        "source_commits": hooks_commits,
        "add_only": True,
    },
    "engines": [{
        "name": "govc",
        "path": "/verif/govc",
        "serves_properties": [c["id"] for c in claims["claimed"]],
        "kind_free_text": "contract-based deductive verifier for Go written for this task: go/ssa (naive form) -> weakest-precondition style VCs per obligation -> z3/z3-new/cvc5 portfolio; contracts are //@ comments in /repo/zz_contracts_*_verif.go; assumed stdlib/absfs contracts in /verif/specs",
    }],
    "checks": [],
    "not_applicable": [],
    "notes": claims.get("notes", ""),
}
claimed = {c["id"]: c for c in claims["claimed"]}
na = {c["id"]: c for c in claims["not_applicable"]}
for i in ids:
    if i in claimed:
        c = claimed[i]
        man["checks"].append({
            "property_id": i,
            "quick_cmd": f"./check {i} quick",
            "thorough_cmd": f"./check {i} thorough",
            "evidence_file": f"/verif/evidence/{i}.json",
            "replay_cmd_template": "./replay {path}",
            "engine": "govc",
            "level_claimed": {"category": "proof", "text": c["text"], "design_ref": c.get("design_ref", "DESIGN.md section 10 " + i)},
            "level_note": c["note"],
            "technique": c.get("technique", "contract-based deductive verification: contracts on the real functions, VCs generated from go/ssa of /repo's working tree, discharged by z3/cvc5"),
        })
    elif i in na:
        man["not_applicable"].append({"property_id": i, "reason": na[i]["reason"]})
    else:
        man["not_applicable"].append({"property_id": i, "reason": "not built: no contracts for this property are discharged yet by the framework (work in progress); no claim is made"})
json.dump(man, open(os.path.join(root, "MANIFEST.json"), "w"), indent=1)
print("claimed:", [c["property_id"] for c in man["checks"]])
print("n/a:", [c["property_id"] for c in man["not_applicable"]])
