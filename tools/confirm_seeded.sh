#!/bin/bash
# usage: confirm_seeded.sh <source dir with patch.diff demo_test.go meta.json> <property id> <n>
# Confirms a seeded breaking change in a scratch worktree of /repo (removed afterwards): the patch applies and builds,
# the existing suite passes with it, the demonstration fails with it and passes without it. On success the change is
# stored as /verif/seeded/<id>/<n>/ with the confirmation recorded in meta.json.
set -u
export GOFLAGS=-mod=mod GOPROXY=off GOSUMDB=off GOTOOLCHAIN=local
SRC="$1"; ID="$2"; N="$3"
WT=/tmp/cs_${ID}_${N}
LOG=/verif/out/confirm_${ID}_${N}.log
mkdir -p /verif/out; : > "$LOG"
git -C /repo worktree remove --force "$WT" >/dev/null 2>&1
git -C /repo worktree add -q --detach "$WT" HEAD || { echo "$ID/$N worktree-failed"; exit 2; }
fin() { git -C /repo worktree remove --force "$WT" >/dev/null 2>&1; rm -rf "$WT"; }
trap fin EXIT
cd "$WT"
git apply "$SRC/patch.diff" >>"$LOG" 2>&1 || { echo "$ID/$N PATCH-DOES-NOT-APPLY"; exit 1; }
go build ./... >>"$LOG" 2>&1 || { echo "$ID/$N DOES-NOT-COMPILE"; exit 1; }
go test -mod=mod -vet=off -count=1 ./... >>"$LOG" 2>&1 || { echo "$ID/$N SUITE-FAILS-WITH-CHANGE"; exit 1; }
RACE=""; grep -q '"race": *true' "$SRC/meta.json" && RACE="-race"   # concurrency demos may need the race detector
cp "$SRC/demo_test.go" zz_seeded_demo_test.go
if go test $RACE -mod=mod -vet=off -count=1 -run TestSeeded . >>"$LOG" 2>&1; then echo "$ID/$N DEMO-PASSES-WITH-CHANGE"; exit 1; fi
git checkout -q -- . ; git stash -q 2>/dev/null
git apply -R "$SRC/patch.diff" 2>/dev/null
git checkout -q -- . 
cp "$SRC/demo_test.go" zz_seeded_demo_test.go
go test $RACE -mod=mod -vet=off -count=1 -run TestSeeded . >>"$LOG" 2>&1 || { echo "$ID/$N DEMO-FAILS-WITHOUT-CHANGE"; exit 1; }
D=/verif/seeded/$ID/$N; mkdir -p "$D"
cp "$SRC/patch.diff" "$D/patch.diff"; cp "$SRC/demo_test.go" "$D/demo_test.go"
HEADSHA=$(git -C /repo rev-parse --short HEAD)
python3 - "$SRC/meta.json" "$D/meta.json" "$ID" "$HEADSHA" <<'PY'
import json,sys
src,dst,pid,sha=sys.argv[1:5]
m=json.load(open(src))
out={"property":pid,"race_detector_needed":bool(m.get("race")),"breaks":m.get("summary",""),"needs":m.get("needs",""),"files":m.get("files",[]),
 "source":"written by a sub-agent given only the property text and a scratch worktree",
 "confirmed":{"at_repo_commit":sha,"ran":["git apply patch.diff","go build ./...","go test -mod=mod -vet=off -count=1 ./...  (passes with the change)","go test -run TestSeeded . with demo_test.go as zz_seeded_demo_test.go (fails with the change, passes without)"]}}
json.dump(out,open(dst,"w"),indent=1)
PY
echo "$ID/$N CONFIRMED"
