#!/usr/bin/env python3
"""Rewrite the table between <!-- seeded-table-begin --> and <!-- seeded-table-end --> in DESIGN.md from
seeded/<id>/<n>/{meta.json,result.json}."""
import json, os, glob, re
ROOT = os.path.dirname(os.path.dirname(os.path.abspath(__file__)))
rows = []
for d in sorted(glob.glob(os.path.join(ROOT, "seeded", "*", "*")), key=lambda p: (p.split("/")[-2], int(p.split("/")[-1]) if p.split("/")[-1].isdigit() else 0)):
    pid, n = d.split("/")[-2:]
    try: meta = json.load(open(os.path.join(d, "meta.json")))
    except Exception: meta = {}
    try: res = json.load(open(os.path.join(d, "result.json")))
    except Exception: res = None
    what = (meta.get("breaks") or meta.get("summary") or meta.get("what") or "").replace("|", "/").replace("\n", " ")
    if len(what) > 150: what = what[:147] + "..."
    if res is None: verdict, obl = "not run", ""
    else:
        verdict = "caught" if res.get("caught") else "MISSED"
        if meta.get("superseded"): verdict = "no longer a breaking change (defect it exposed was repaired)"
        fo = [o for o in res.get("failed_obligations", []) if "#kf-" not in o]
        obl = (fo[0] if fo else "").replace("|", "/")
    rows.append(f"| {pid}/{n} | {what} | {verdict} | `{obl}` |")
table = "| change | what it does | check of that property | first failing obligation |\n|---|---|---|---|\n" + "\n".join(rows) + "\n"
p = os.path.join(ROOT, "DESIGN.md")
s = open(p).read()
s2 = re.sub(r"(<!-- seeded-table-begin -->\n).*?(<!-- seeded-table-end -->)", lambda m: m.group(1) + table + m.group(2), s, flags=re.S)
open(p, "w").write(s2)
print(len(rows), "rows;", sum(1 for r in rows if "| caught |" in r), "caught")
