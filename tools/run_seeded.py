#!/usr/bin/env python3
"""Run the check of the targeted property against each seeded breaking change (seeded/<id>/<n>/patch.diff).
Each change is applied in a scratch git worktree of /repo's HEAD under /tmp (never in /repo itself), the check is
run with VERIF_REPO pointing there and its evidence sent to out/seeded-evidence, the outcome is recorded in
seeded/<id>/<n>/result.json, and the worktree is removed.
Usage: run_seeded.py [-j N] [ID | ID/n ...]"""
import json, os, subprocess, sys, glob, shutil, concurrent.futures as cf
ROOT = os.path.dirname(os.path.dirname(os.path.abspath(__file__)))
REPO = os.environ.get("VP_RUN_REPO") or "/repo"   # a vp run --with-repo snapshot, or the repository itself
def sh(*a, **k): return subprocess.run(a, capture_output=True, text=True, **k)
args = sys.argv[1:]; jobs = 3
if args and args[0] == "-j": jobs = int(args[1]); args = args[2:]
if sh("git", "-C", REPO, "status", "--porcelain", "--untracked-files=no").stdout.strip():
    print("uncommitted changes in /repo: commit them first (the scratch worktrees are taken from HEAD)"); sys.exit(2)
todo = []
for d in sorted(glob.glob(os.path.join(ROOT, "seeded", "*", "*"))):
    pid = os.path.basename(os.path.dirname(d)); n = os.path.basename(d)
    if args and pid not in args and f"{pid}/{n}" not in args and not any(a.startswith(f"{pid}/{n}@") for a in args): continue
    others = [a.split("@", 1)[1] for a in args if a.startswith(f"{pid}/{n}@")]
    if os.path.exists(os.path.join(d, "patch.diff")):
        if others:
            for o in others: todo.append((pid, n, d, o))   # run another property's check against this change (result.json untouched)
        else: todo.append((pid, n, d, pid))
def run(t):
    pid, n, d, chk = t
    wt = f"/tmp/seedrun_{pid}_{n}_{chk}_{os.getpid()}"
    sh("git", "-C", REPO, "worktree", "remove", "--force", wt)
    a = sh("git", "-C", REPO, "worktree", "add", "-q", "--detach", wt, "HEAD")
    if a.returncode != 0: return (pid, n, "WORKTREE-FAILS", a.stderr.strip()[:100])
    try:
        a = sh("git", "-C", wt, "apply", os.path.join(d, "patch.diff"))
        if a.returncode != 0: return (pid, n, "PATCH-FAILS", a.stderr.strip()[:100])
        r = sh(os.path.join(ROOT, "check"), chk, "quick", cwd=ROOT,
               env=dict(os.environ, VERIF_REPO=wt, VERIF_EVIDENCE_DIR=os.path.join(ROOT, "out", "seeded-evidence", f"{pid}_{n}_{chk}"),
                        VERIF_OUT_DIR=os.path.join(ROOT, "out", "seeded-smt", f"{pid}_{n}_{chk}")))
        viol = [l for l in r.stdout.splitlines() if l.startswith("VIOLATION")]
        fails = [l.split(" verdict=")[0].replace("FAILED ", "") for l in r.stdout.splitlines() if l.startswith("FAILED")]
        fails.sort(key=lambda o: "#kf-" in o)   # obligations of recorded known findings last
        res = {"property": pid, "change": n, "exit": r.returncode, "caught": r.returncode == 1 and bool(viol), "failed_obligations": fails[:12]}
        if chk == pid: json.dump(res, open(os.path.join(d, "result.json"), "w"), indent=1)
        else: res["checked_with"] = chk
        return (pid + ("" if chk == pid else "@" + chk), n, "CAUGHT" if res["caught"] else "MISSED(rc=%d)" % r.returncode, "; ".join(fails[:3])[:200])
    finally:
        sh("git", "-C", REPO, "worktree", "remove", "--force", wt); shutil.rmtree(wt, ignore_errors=True)
with cf.ThreadPoolExecutor(jobs) as ex:
    for r in ex.map(run, todo): print("%-4s %-2s %-14s %s" % r, flush=True)
