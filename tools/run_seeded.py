#!/usr/bin/env python3
"""Apply each seeded breaking change (seeded/<id>/<n>/patch.diff) to /repo, run the check of the property
it targets, record the outcome in seeded/<id>/<n>/result.json and undo the change.
Usage: run_seeded.py [ID ...]   (/repo must be clean)"""
import json, os, subprocess, sys, glob
ROOT = os.path.dirname(os.path.dirname(os.path.abspath(__file__)))
REPO = "/repo"
def sh(*a, **k): return subprocess.run(a, capture_output=True, text=True, **k)
if sh("git", "-C", REPO, "status", "--porcelain").stdout.strip():
    print("repo not clean"); sys.exit(2)
ids = sys.argv[1:]
rows = []
for d in sorted(glob.glob(os.path.join(ROOT, "seeded", "*", "*"))):
    pid = os.path.basename(os.path.dirname(d)); n = os.path.basename(d)
    if ids and pid not in ids: continue
    patch = os.path.join(d, "patch.diff")
    if not os.path.exists(patch): continue
    a = sh("git", "-C", REPO, "apply", patch)
    if a.returncode != 0:
        rows.append((pid, n, "PATCH-FAILS", a.stderr.strip()[:100])); continue
    try:
        r = sh(os.path.join(ROOT, "check"), pid, "quick", cwd=ROOT,
               env=dict(os.environ, VERIF_EVIDENCE_DIR=os.path.join(ROOT, "out", "seeded-evidence")))
        viol = [l for l in r.stdout.splitlines() if l.startswith("VIOLATION")]
        fails = [l.split(" verdict=")[0].replace("FAILED ", "") for l in r.stdout.splitlines() if l.startswith("FAILED")]
        res = {"property": pid, "change": n, "exit": r.returncode, "caught": r.returncode == 1 and bool(viol), "failed_obligations": fails[:12]}
        json.dump(res, open(os.path.join(d, "result.json"), "w"), indent=1)
        rows.append((pid, n, "CAUGHT" if res["caught"] else "MISSED(rc=%d)" % r.returncode, "; ".join(fails[:3])[:160]))
    finally:
        sh("git", "-C", REPO, "checkout", "--", ".")
for r in rows: print("%-4s %-2s %-14s %s" % r)
