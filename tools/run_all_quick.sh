#!/bin/bash
# run every claimed quick check on /repo, print one line each; VERIF_SEED=1 like the harness
cd "$(dirname "$0")/.."
export VERIF_SEED=${VERIF_SEED:-1} VERIF_TIER=quick
for id in $(jq -r '.checks[].property_id' MANIFEST.json); do
  s=$(date +%s)
  ./check $id quick > out/quick_$id.log 2>&1; rc=$?
  e=$(date +%s)
  echo "$id rc=$rc $((e-s))s $(grep -c '^FAILED' out/quick_$id.log) failed $(grep -h '^VIOLATION\|^KNOWN-FINDING\|^TOOL-ERROR' out/quick_$id.log | head -3 | tr '\n' '|')"
done
