#!/bin/bash
# usage: overlay_test.sh <test file .go> [repo dir]  -- run an in-package test against the repo without writing to it
set -u
export GOFLAGS=-mod=mod GOPROXY=off GOSUMDB=off GOTOOLCHAIN=local
F=$(readlink -f "$1"); REPO="${2:-/repo}"
NAME=$(grep -o 'func Test[A-Za-z0-9_]*' "$F" | sed 's/func //' | paste -sd'|')
mkdir -p /verif/out; OV=$(mktemp /verif/out/ov.XXXXXX.json)
printf '{"Replace": {"%s/zz_verif_overlay_test.go": "%s"}}' "$REPO" "$F" > "$OV"
RACE=""; grep -q 'go test -race' "$F" && RACE="-race"   # witnesses of data races say so in their header comment
(cd "$REPO" && go test $RACE -overlay "$OV" -vet=off -count=1 -timeout 120s -run "^(${NAME})\$" . 2>&1 | tail -15); RC=${PIPESTATUS[0]}
rm -f "$OV"; exit $RC
