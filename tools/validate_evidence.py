#!/usr/bin/env python3
"""Validate every /verif/evidence/<id>.json claimed in MANIFEST.json: schema-valid, proof-level record
(discharged == obligations >= 1), no violations, written for the right property. Run before committing
evidence; exit 1 on the first problem list."""
import json, os, sys
ROOT = os.path.dirname(os.path.dirname(os.path.abspath(__file__)))
schema = json.load(open("/root/.vp/EVIDENCE.schema.json"))
try:
    import jsonschema
except ImportError:
    jsonschema = None
man = json.load(open(os.path.join(ROOT, "MANIFEST.json")))
bad = []
for c in man["checks"]:
    pid, path = c["property_id"], c["evidence_file"]
    if not os.path.exists(path):
        bad.append(f"{pid}: {path} missing"); continue
    e = json.load(open(path))
    if jsonschema:
        try: jsonschema.validate(e, schema)
        except jsonschema.ValidationError as x: bad.append(f"{pid}: schema: {x.message[:200]}")
    cov = e["coverage"]
    if e["property_id"] != pid: bad.append(f"{pid}: property_id {e['property_id']}")
    if e["level"] != c["level_claimed"]["category"]: bad.append(f"{pid}: level {e['level']}")
    if cov["obligations"] < 1 or cov["discharged"] != cov["obligations"]:
        bad.append(f"{pid}: discharged {cov['discharged']} != obligations {cov['obligations']}")
    if e.get("violations", 0) != 0: bad.append(f"{pid}: violations {e['violations']}")
    if cov.get("failed_obligations"): bad.append(f"{pid}: failed_obligations {cov['failed_obligations']}")
    print(f"{pid}: tier={e['tier']} seed={e['seed']} obligations={cov['obligations']} discharged={cov['discharged']} wall={e['wall_s']:.1f}s")
for b in bad: print("BAD", b)
sys.exit(1 if bad else 0)
