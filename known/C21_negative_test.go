package absnfs

import (
	"testing"
	"time"
)

// Witness for C21: negative entries exist only while negative caching is enabled.
func TestVerifC21NegativeSurvivesDisable(t *testing.T) {
	c := NewAttrCache(time.Minute, 10)
	c.ConfigureNegativeCaching(true, time.Minute)
	c.PutNegative("/d/x")
	if _, found := c.Get("/d/x"); !found {
		t.Fatal("setup: negative entry not stored")
	}
	c.ConfigureNegativeCaching(false, time.Minute)
	if attrs, found := c.Get("/d/x"); found && attrs == nil {
		t.Fatalf("C21 violated: negative entry still served after negative caching was disabled")
	}
	if n := c.NegativeStats(); n != 0 {
		t.Fatalf("C21 violated: %d negative entries remain after disabling", n)
	}
}
