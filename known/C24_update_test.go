package absnfs

import (
	"testing"

	"github.com/absfs/memfs"
)

func verifNewServer(t *testing.T) *AbsfsNFS {
	fs, err := memfs.NewFS()
	if err != nil {
		t.Fatal(err)
	}
	n, err := New(fs, ExportOptions{})
	if err != nil {
		t.Fatal(err)
	}
	return n
}

// Witness for C24: zero / nil fields in a runtime update must take the construction defaults.
func TestVerifC24ZeroFieldsDefaulted(t *testing.T) {
	n := verifNewServer(t)
	defer n.Close()
	if err := n.UpdateExportOptions(ExportOptions{AttrCacheSize: 5}); err != nil {
		t.Fatal(err)
	}
	tu := n.tuning.Load()
	if tu.TransferSize <= 0 || tu.MaxWorkers <= 0 || tu.MaxConnections <= 0 || tu.IdleTimeout <= 0 || tu.AttrCacheTimeout <= 0 {
		t.Fatalf("C24 violated: after UpdateExportOptions{AttrCacheSize:5}: TransferSize=%d MaxWorkers=%d MaxConnections=%d IdleTimeout=%v AttrCacheTimeout=%v",
			tu.TransferSize, tu.MaxWorkers, tu.MaxConnections, tu.IdleTimeout, tu.AttrCacheTimeout)
	}
	n.UpdateTuningOptions(func(t *TuningOptions) { t.TransferSize = 0; t.Timeouts = &TimeoutConfig{} })
	tu = n.tuning.Load()
	if tu.TransferSize <= 0 || tu.Timeouts == nil || tu.Timeouts.ReadTimeout <= 0 || tu.Timeouts.DefaultTimeout <= 0 {
		t.Fatalf("C24 violated: after UpdateTuningOptions zeroing: TransferSize=%d Timeouts=%+v", tu.TransferSize, tu.Timeouts)
	}
}

// Witness for C24: a rejected update (Squash change) must leave the whole configuration unchanged.
func TestVerifC24RejectedUpdateIsAtomic(t *testing.T) {
	n := verifNewServer(t)
	defer n.Close()
	before := n.tuning.Load()
	err := n.UpdateExportOptions(ExportOptions{Squash: "all", AttrCacheSize: 77})
	if err == nil {
		t.Fatal("expected the Squash change to be rejected")
	}
	if after := n.tuning.Load(); after != before || after.AttrCacheSize == 77 {
		t.Fatalf("C24 violated: rejected update changed tuning (AttrCacheSize=%d)", after.AttrCacheSize)
	}
}
