package absnfs

import (
	"bytes"
	"encoding/binary"
	"testing"

	"github.com/absfs/memfs"
)

// Witness for C03 (fixed): CREATE on a name that already holds a 5-byte file.
//   GUARDED                 -> NFS3ERR_EXIST (17), file untouched
//   UNCHECKED without size  -> NFS3_OK, file untouched           (used to truncate it to 0 bytes)
//   EXCLUSIVE               -> NFS3_OK, file untouched           (used to truncate it to 0 bytes)
//   UNCHECKED with size = 0 -> NFS3_OK, file truncated (the request explicitly sets size)
func TestVerifC03CreateKeepsExistingData(t *testing.T) {
	mfs, err := memfs.NewFS()
	if err != nil {
		t.Fatal(err)
	}
	n, err := New(mfs, ExportOptions{})
	if err != nil {
		t.Fatal(err)
	}
	defer n.Close()
	srv, err := NewServer(ServerOptions{})
	if err != nil {
		t.Fatal(err)
	}
	srv.SetHandler(n)
	h := &NFSProcedureHandler{server: srv}
	root, err := n.Lookup("/")
	if err != nil {
		t.Fatal(err)
	}
	rootH := n.fileMap.Allocate(root)
	fill := func() {
		f, err := mfs.Create("/f")
		if err != nil {
			t.Fatal(err)
		}
		f.Write([]byte("hello"))
		f.Close()
		n.attrCache.Invalidate("/f")
	}
	size := func() int64 {
		fi, err := mfs.Stat("/f")
		if err != nil {
			t.Fatal(err)
		}
		return fi.Size()
	}
	create := func(how uint32, setSize bool) uint32 {
		var b bytes.Buffer
		w := func(v interface{}) { binary.Write(&b, binary.BigEndian, v) }
		w(uint32(8))
		w(rootH)
		w(uint32(1))
		b.WriteString("f\x00\x00\x00")
		w(how)
		if how == 2 {
			b.Write([]byte{9, 9, 9, 9, 9, 9, 9, 9}) // createverf3
		} else {
			w(uint32(1)) // set mode
			w(uint32(0644))
			w(uint32(0)) // uid
			w(uint32(0)) // gid
			if setSize {
				w(uint32(1))
				w(uint64(0))
			} else {
				w(uint32(0))
			}
			w(uint32(0)) // atime
			w(uint32(0)) // mtime
		}
		reply, err := h.handleCreate(&b, &RPCReply{}, &AuthContext{ClientIP: "127.0.0.1"})
		if err != nil {
			t.Fatal(err)
		}
		return binary.BigEndian.Uint32(reply.Data.([]byte))
	}
	fill()
	if st := create(1, false); st != 17 || size() != 5 {
		t.Fatalf("C03 violated: GUARDED CREATE of an existing 5-byte file: status %d, size now %d (want NFS3ERR_EXIST and 5)", st, size())
	}
	fill()
	if st := create(0, false); st != 0 || size() != 5 {
		t.Fatalf("C03 violated: UNCHECKED CREATE (no size in sattr3) of an existing 5-byte file: status %d, size now %d (want NFS3_OK and 5)", st, size())
	}
	fill()
	if st := create(2, false); st != 0 || size() != 5 {
		t.Fatalf("C03 violated: EXCLUSIVE CREATE of an existing 5-byte file: status %d, size now %d (want the data kept)", st, size())
	}
	fill()
	if st := create(0, true); st != 0 || size() != 0 {
		t.Fatalf("C03: UNCHECKED CREATE with size=0 of an existing file must truncate: status %d, size %d", st, size())
	}
}
