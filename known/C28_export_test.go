package absnfs

import (
	"testing"

	"github.com/absfs/absfs"
	"github.com/absfs/memfs"
)

func memfsNewForVerif() (absfs.SymlinkFileSystem, error) { return memfs.NewFS() }

// Witness for C28: the documented quick-start path AbsfsNFS.Export must start a server that speaks
// record-marked ONC RPC (what every standard NFS client sends).
func TestVerifC28ExportUsesRecordMarking(t *testing.T) {
	n := verifC28Server(t)
	defer n.Close()
	if err := n.Export("/", 0); err != nil {
		t.Fatal(err)
	}
	defer n.Unexport()
	if n.exportServer == nil || !n.exportServer.options.UseRecordMarking {
		t.Fatalf("C28 violated: Export started a server with UseRecordMarking=false; a conformant client's 4-byte record mark would be parsed as the XID")
	}
}

func verifC28Server(t *testing.T) *AbsfsNFS {
	fs, err := memfsNewForVerif()
	if err != nil {
		t.Fatal(err)
	}
	n, err := New(fs, ExportOptions{})
	if err != nil {
		t.Fatal(err)
	}
	return n
}
