package absnfs

import (
	"os"
	"testing"

	"github.com/absfs/absfs"
	"github.com/absfs/memfs"
)

// Witness for C22 (fixed): a WRITE that is acknowledged (and therefore reported FILE_SYNC by handleWrite) must
// have issued File.Sync after its last WriteAt - a backend that loses everything not yet synced at a crash would
// otherwise lose acknowledged data. The recording backend counts data modifications not followed by a Sync.
type c22RecFS struct {
	absfs.SymlinkFileSystem
	unsynced int
	syncs    int
}

type c22RecFile struct {
	absfs.File
	fs *c22RecFS
}

func (r *c22RecFS) OpenFile(name string, flag int, perm os.FileMode) (absfs.File, error) {
	f, err := r.SymlinkFileSystem.OpenFile(name, flag, perm)
	if err != nil {
		return nil, err
	}
	return &c22RecFile{File: f, fs: r}, nil
}

func (f *c22RecFile) WriteAt(p []byte, off int64) (int, error) {
	f.fs.unsynced++
	return f.File.WriteAt(p, off)
}

func (f *c22RecFile) Sync() error {
	err := f.File.Sync()
	if err == nil {
		f.fs.unsynced = 0
		f.fs.syncs++
	}
	return err
}

func TestVerifC22WriteSyncedBeforeAck(t *testing.T) {
	mfs, err := memfs.NewFS()
	if err != nil {
		t.Fatal(err)
	}
	rec := &c22RecFS{SymlinkFileSystem: mfs}
	n, err := New(rec, ExportOptions{})
	if err != nil {
		t.Fatal(err)
	}
	defer n.Close()
	root, err := n.Lookup("/")
	if err != nil {
		t.Fatal(err)
	}
	node, err := n.Create(root, "f", &NFSAttrs{Mode: 0644})
	if err != nil {
		t.Fatal(err)
	}
	rec.unsynced = 0
	if _, err := n.Write(node, 0, []byte("stable data")); err != nil {
		t.Fatal(err)
	}
	if rec.unsynced != 0 {
		t.Fatalf("C22 violated: WRITE returned success (replied FILE_SYNC) with %d data modification(s) never synced (Sync calls: %d); a crash now loses acknowledged data", rec.unsynced, rec.syncs)
	}
}
