package absnfs

import (
	"bytes"
	"encoding/binary"
	"testing"

	"github.com/absfs/memfs"
)

// Witness for C25 (fixed): with MaxFileSize = 10, a WRITE that would end at byte 13 and a SETATTR(size=11)
// must fail with NFS3ERR_FBIG (27) and leave the 4-byte file as it is.
func TestVerifC25MaxFileSizeEnforced(t *testing.T) {
	mfs, err := memfs.NewFS()
	if err != nil {
		t.Fatal(err)
	}
	n, err := New(mfs, ExportOptions{MaxFileSize: 10})
	if err != nil {
		t.Fatal(err)
	}
	defer n.Close()
	root, err := n.Lookup("/")
	if err != nil {
		t.Fatal(err)
	}
	node, err := n.Create(root, "f", &NFSAttrs{Mode: 0644})
	if err != nil {
		t.Fatal(err)
	}
	if _, err := n.Write(node, 0, []byte("abcd")); err != nil {
		t.Fatal(err)
	}
	size := func() int64 {
		fi, err := mfs.Stat("/f")
		if err != nil {
			t.Fatal(err)
		}
		return fi.Size()
	}
	if _, err := n.Write(node, 8, []byte("12345")); err == nil || mapError(err) != NFSERR_FBIG || size() != 4 {
		t.Fatalf("C25 violated: WRITE to bytes 8..13 with MaxFileSize=10: err=%v status=%d, file size now %d (want NFS3ERR_FBIG and 4)", err, mapError(err), size())
	}
	if _, err := n.Write(node, 4, []byte("123456")); err != nil || size() != 10 {
		t.Fatalf("C25: a WRITE ending exactly at the limit must succeed: err=%v size=%d", err, size())
	}
	// SETATTR(size=11) through the procedure handler
	srv, err := NewServer(ServerOptions{})
	if err != nil {
		t.Fatal(err)
	}
	srv.SetHandler(n)
	h := &NFSProcedureHandler{server: srv}
	id := n.fileMap.Allocate(node)
	var body bytes.Buffer
	w := func(v interface{}) { binary.Write(&body, binary.BigEndian, v) }
	w(uint32(8))
	w(uint64(id))
	w(uint32(0)) // mode
	w(uint32(0)) // uid
	w(uint32(0)) // gid
	w(uint32(1)) // size follows
	w(uint64(11))
	w(uint32(0)) // atime
	w(uint32(0)) // mtime
	w(uint32(0)) // no guard
	reply, err := h.handleSetattr(&body, &RPCReply{}, &AuthContext{})
	if err != nil {
		t.Fatal(err)
	}
	data, _ := reply.Data.([]byte)
	if len(data) < 4 || binary.BigEndian.Uint32(data) != NFSERR_FBIG || size() != 10 {
		t.Fatalf("C25 violated: SETATTR(size=11) with MaxFileSize=10: reply %v, file size now %d (want NFS3ERR_FBIG and 10)", data, size())
	}
}
