package absnfs

import (
	"bytes"
	"encoding/binary"
	"testing"

	"github.com/absfs/memfs"
)

// Witness for C14 (fixed): a call that arrives while a policy update drains requests is answered "try again
// later" in the failure result of ITS procedure. The server used to send a bare 4-byte status for every program and
// procedure: LOOKUP3resfail needs a post_op_attr after the status (8 bytes at least), RENAME3resfail two wcc_data
// (20 bytes), and the MOUNT program has no NFS3ERR_JUKEBOX at all.
func TestVerifC14DrainReplyShape(t *testing.T) {
	mfs, err := memfs.NewFS()
	if err != nil {
		t.Fatal(err)
	}
	n, err := New(mfs, ExportOptions{})
	if err != nil {
		t.Fatal(err)
	}
	defer n.Close()
	srv, err := NewServer(ServerOptions{})
	if err != nil {
		t.Fatal(err)
	}
	srv.SetHandler(n)
	h := &NFSProcedureHandler{server: srv}
	n.policyRWMu.Lock() // a policy update is in progress
	defer n.policyRWMu.Unlock()
	want := map[uint32]int{1: 4, 3: 8, 6: 8, 7: 12, 14: 20, 15: 16}
	for proc, size := range want {
		call := &RPCCall{Header: RPCMsgHeader{Xid: 77, Program: NFS_PROGRAM, Version: 3, Procedure: proc}}
		reply, err := h.HandleCall(call, bytes.NewReader(nil), &AuthContext{ClientIP: "127.0.0.1", Credential: &call.Credential})
		if err != nil || reply == nil {
			t.Fatalf("proc %d: %v", proc, err)
		}
		data, _ := reply.Data.([]byte)
		if len(data) != size || binary.BigEndian.Uint32(data) != 10008 || reply.Header.Xid != 77 {
			t.Fatalf("C14 violated: during a drain, NFS procedure %d is answered with %d result bytes (%x), want the %d-byte *resfail with NFS3ERR_JUKEBOX", proc, len(data), data, size)
		}
	}
	call := &RPCCall{Header: RPCMsgHeader{Xid: 78, Program: MOUNT_PROGRAM, Version: 3, Procedure: 1}}
	reply, err := h.HandleCall(call, bytes.NewReader(nil), &AuthContext{ClientIP: "127.0.0.1", Credential: &call.Credential})
	if err != nil || reply == nil {
		t.Fatal(err)
	}
	if data, _ := reply.Data.([]byte); len(data) != 0 || reply.AcceptStatus == SUCCESS {
		t.Fatalf("C14 violated: during a drain, MOUNT MNT is answered accept_stat %d with result bytes %x (an nfsstat3 value is not a mountstat3)", reply.AcceptStatus, data)
	}
}
