package absnfs

import (
	"testing"

	"github.com/absfs/absfs"
)

// Witness for C05 (live when issued): with maxHandles=10, eleven allocations leave ids 2..11 live and
// id 1 on the free list. The next allocation reuses id 1 (smallest free), the table is over the limit
// again, and the eviction scan starts at the smallest id - evicting the handle being returned.
func TestVerifC05FreshHandleEvicted(t *testing.T) {
	fm := &FileHandleMap{handles: map[uint64]absfs.File{}, pathHandles: map[string]uint64{}, nextHandle: 1, freeHandles: NewUint64MinHeap(), maxHandles: 10}
	mk := func(p string) *NFSNode { return &NFSNode{path: p, attrs: &NFSAttrs{}} }
	for i := 0; i < 11; i++ {
		fm.Allocate(mk("/p" + string(rune('a'+i))))
	}
	h := fm.Allocate(mk("/fresh"))
	f, ok := fm.Get(h)
	if !ok {
		t.Fatalf("C05 violated: Allocate returned handle %d which does not resolve (evicted by its own allocation)", h)
	}
	if n, _ := f.(*NFSNode); n == nil || n.path != "/fresh" {
		t.Fatalf("C05 violated: handle %d resolves to another object", h)
	}
	if fm.Count() > 10 {
		t.Fatalf("C05 violated: %d live handles exceed the limit 10", fm.Count())
	}
}
