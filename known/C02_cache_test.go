package absnfs

import (
	"bytes"
	"encoding/binary"
	"testing"
	"time"

	"github.com/absfs/memfs"
)

// Witnesses for C02 (fixed): the caches must not hide a mutation the server itself completed.
//  1. LOOKUP d (missing, remembered by the negative cache) then MKDIR d: MKDIR answered NFS3ERR_NOENT for the
//     directory it had just created, and a following LOOKUP d still said "no such file".
//  2. LOOKUP a/x (cached), RENAME a -> b, LOOKUP a/x: the stale positive entry answered NFS3_OK for a path
//     that no longer exists.
func TestVerifC02CachesFollowOwnMutations(t *testing.T) {
	mfs, err := memfs.NewFS()
	if err != nil {
		t.Fatal(err)
	}
	if err := mfs.Mkdir("/a", 0755); err != nil {
		t.Fatal(err)
	}
	f, err := mfs.Create("/a/x")
	if err != nil {
		t.Fatal(err)
	}
	f.Close()
	n, err := New(mfs, ExportOptions{AttrCacheTimeout: time.Hour, CacheNegativeLookups: true, NegativeCacheTimeout: time.Hour, EnableDirCache: true, DirCacheTimeout: time.Hour})
	if err != nil {
		t.Fatal(err)
	}
	defer n.Close()
	srv, err := NewServer(ServerOptions{})
	if err != nil {
		t.Fatal(err)
	}
	srv.SetHandler(n)
	h := &NFSProcedureHandler{server: srv}
	root, err := n.Lookup("/")
	if err != nil {
		t.Fatal(err)
	}
	rootH := n.fileMap.Allocate(root)
	auth := &AuthContext{ClientIP: "127.0.0.1"}
	name := func(b *bytes.Buffer, s string) {
		binary.Write(b, binary.BigEndian, uint32(len(s)))
		b.WriteString(s)
		for i := len(s); i%4 != 0; i++ {
			b.WriteByte(0)
		}
	}
	lookup := func(dir uint64, s string) uint32 {
		var b bytes.Buffer
		binary.Write(&b, binary.BigEndian, uint32(8))
		binary.Write(&b, binary.BigEndian, dir)
		name(&b, s)
		r, err := h.handleLookup(&b, &RPCReply{}, auth)
		if err != nil {
			t.Fatal(err)
		}
		return binary.BigEndian.Uint32(r.Data.([]byte))
	}
	// 1. negative entry, then MKDIR
	if st := lookup(rootH, "d"); st != 2 {
		t.Fatalf("LOOKUP of a missing name: status %d", st)
	}
	var b bytes.Buffer
	binary.Write(&b, binary.BigEndian, uint32(8))
	binary.Write(&b, binary.BigEndian, rootH)
	name(&b, "d")
	for _, v := range []uint32{1, 0755, 0, 0, 0, 0, 0} { // sattr3: mode set, nothing else
		binary.Write(&b, binary.BigEndian, v)
	}
	r, err := h.handleMkdir(&b, &RPCReply{}, auth)
	if err != nil {
		t.Fatal(err)
	}
	if st := binary.BigEndian.Uint32(r.Data.([]byte)); st != 0 {
		t.Fatalf("C02 violated: MKDIR d after a LOOKUP d that found nothing answers status %d (the directory was created; the negative cache entry hid it)", st)
	}
	if st := lookup(rootH, "d"); st != 0 {
		t.Fatalf("C02 violated: LOOKUP d after MKDIR d answers status %d", st)
	}
	// 2. positive entry below a directory that is renamed
	aNode, err := n.Lookup("/a")
	if err != nil {
		t.Fatal(err)
	}
	aH := n.fileMap.Allocate(aNode)
	if st := lookup(aH, "x"); st != 0 {
		t.Fatalf("LOOKUP a/x: status %d", st)
	}
	if err := n.Rename(root, "a", root, "b"); err != nil {
		t.Fatal(err)
	}
	if _, err := n.Lookup("/a/x"); err == nil {
		t.Fatalf("C02 violated: after RENAME a -> b, a lookup of a/x still succeeds from the attribute cache")
	}
	if _, err := n.Lookup("/b/x"); err != nil {
		t.Fatalf("after RENAME a -> b, b/x must be found: %v", err)
	}
}
