package absnfs

import (
	"testing"

	"github.com/absfs/absfs"
)

// Witness for C06 (known finding C06-reuse): a handle value given out for one path is handed out again
// for a different path after the first object was released - the wire handle carries no generation.
func TestVerifC06HandleValueReused(t *testing.T) {
	fm := &FileHandleMap{handles: map[uint64]absfs.File{}, pathHandles: map[string]uint64{}, nextHandle: 1, freeHandles: NewUint64MinHeap(), maxHandles: 100}
	a := fm.Allocate(&NFSNode{path: "/a", attrs: &NFSAttrs{}})
	fm.Release(a)
	b := fm.Allocate(&NFSNode{path: "/b", attrs: &NFSAttrs{}})
	if a == b {
		f, _ := fm.Get(a)
		t.Fatalf("C06 violated: handle value %d was issued for /a and now resolves to %s", a, f.(*NFSNode).path)
	}
}
