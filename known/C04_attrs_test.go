package absnfs

import (
	"bytes"
	"encoding/binary"
	"os"
	"testing"

	"github.com/absfs/memfs"
)

// Witnesses for C04 (fixed).
//  1. SETATTR(mode) on a directory handle must not change the object's type or fileid: the handle's attribute
//     record was replaced by one holding only the permission bits, uid and gid, so a later LOOKUP through the
//     same handle answered NFS3ERR_NOTDIR and GETATTR-from-node reported fileid 0.
//  2. READDIRPLUS must report the same fileid as GETATTR/LOOKUP for each entry, and a symbolic link as a link:
//     entry attributes were rebuilt from Stat (which follows links) without a fileid.

func c04Setup(t *testing.T) (*AbsfsNFS, *NFSProcedureHandler) {
	mfs, err := memfs.NewFS()
	if err != nil {
		t.Fatal(err)
	}
	if err := mfs.Mkdir("/d", 0755); err != nil {
		t.Fatal(err)
	}
	f, err := mfs.Create("/d/file")
	if err != nil {
		t.Fatal(err)
	}
	f.Close()
	if err := mfs.Symlink("file", "/d/link"); err != nil {
		t.Fatal(err)
	}
	n, err := New(mfs, ExportOptions{AttrCacheTimeout: 1}) // 1 ns: every cached entry is expired when looked at
	if err != nil {
		t.Fatal(err)
	}
	t.Cleanup(func() { n.Close() })
	srv, err := NewServer(ServerOptions{})
	if err != nil {
		t.Fatal(err)
	}
	srv.SetHandler(n)
	return n, &NFSProcedureHandler{server: srv}
}

func TestVerifC04SetattrKeepsTypeAndFileid(t *testing.T) {
	n, h := c04Setup(t)
	dir, err := n.Lookup("/d")
	if err != nil {
		t.Fatal(err)
	}
	id := n.fileMap.Allocate(dir)
	wantId := dir.attrs.FileId
	var body bytes.Buffer
	w := func(v interface{}) { binary.Write(&body, binary.BigEndian, v) }
	w(uint32(8))
	w(id)
	w(uint32(1)) // set mode
	w(uint32(0700))
	w(uint32(0)) // uid
	w(uint32(0)) // gid
	w(uint32(0)) // size
	w(uint32(0)) // atime
	w(uint32(0)) // mtime
	w(uint32(0)) // guard
	reply, err := h.handleSetattr(&body, &RPCReply{}, &AuthContext{ClientIP: "127.0.0.1"})
	if err != nil {
		t.Fatal(err)
	}
	if st := binary.BigEndian.Uint32(reply.Data.([]byte)); st != 0 {
		t.Fatalf("SETATTR status %d", st)
	}
	if dir.attrs.Mode&os.ModeDir == 0 || dir.attrs.FileId != wantId {
		t.Fatalf("C04 violated: after SETATTR(mode=0700) the directory handle's attributes are mode=%v fileid=%d (want a directory with fileid %d)", dir.attrs.Mode, dir.attrs.FileId, wantId)
	}
	// LOOKUP "file" through the same handle must still treat it as a directory
	body.Reset()
	w(uint32(8))
	w(id)
	w(uint32(4))
	body.WriteString("file")
	reply, err = h.handleLookup(&body, &RPCReply{}, &AuthContext{ClientIP: "127.0.0.1"})
	if err != nil {
		t.Fatal(err)
	}
	if st := binary.BigEndian.Uint32(reply.Data.([]byte)); st != 0 {
		t.Fatalf("C04 violated: LOOKUP through a directory handle after SETATTR(mode) answers status %d", st)
	}
}

func TestVerifC04ReaddirplusAttrsMatchGetattr(t *testing.T) {
	n, _ := c04Setup(t)
	dir, err := n.Lookup("/d")
	if err != nil {
		t.Fatal(err)
	}
	entries, err := n.ReadDirPlus(dir)
	if err != nil {
		t.Fatal(err)
	}
	if len(entries) != 2 {
		t.Fatalf("want 2 entries, got %d", len(entries))
	}
	for _, e := range entries {
		ref, err := n.Lookup(e.path)
		if err != nil {
			t.Fatal(err)
		}
		got, err := n.GetAttr(ref)
		if err != nil {
			t.Fatal(err)
		}
		if e.attrs.FileId != got.FileId || e.attrs.Mode&os.ModeType != got.Mode&os.ModeType {
			t.Fatalf("C04 violated: READDIRPLUS reports %s with fileid %d type %v, GETATTR reports fileid %d type %v", e.path, e.attrs.FileId, e.attrs.Mode&os.ModeType, got.FileId, got.Mode&os.ModeType)
		}
	}
}
