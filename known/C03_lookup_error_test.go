package absnfs

import (
	"bytes"
	"encoding/binary"
	"io"
	"os"
	"syscall"
	"testing"

	"github.com/absfs/memfs"
)

// Witness for C03 (fixed): CREATE looks the name up before creating, and went on to the backend's truncating
// Create whenever that lookup FAILED - also when it failed for a reason other than "no such object" (an I/O error
// of the backend's stat, a lookup timeout). A GUARDED or UNCHECKED create of an existing file whose stat failed
// once therefore emptied the file and answered NFS3_OK. Found through a seeded change (a lookup that reports a
// slow stat as a timeout) that the check did not catch: the clause `create-only-when-absent` asked for a failed
// lookup, not for a lookup that said the name is absent.
type c03FlakyStatFS struct {
	*memfs.FileSystem
	failPath string
	fail     bool
}

func (s *c03FlakyStatFS) Lstat(name string) (os.FileInfo, error) {
	if s.fail && name == s.failPath {
		return nil, &os.PathError{Op: "lstat", Path: name, Err: syscall.EIO}
	}
	return s.FileSystem.Lstat(name)
}

func TestVerifC03CreateAfterFailedLookup(t *testing.T) {
	for _, how := range []uint32{0, 1} {
		mfs, err := memfs.NewFS()
		if err != nil {
			t.Fatal(err)
		}
		if err := mfs.Mkdir("/d", 0755); err != nil {
			t.Fatal(err)
		}
		content := []byte("ledger: forty-two entries")
		f, err := mfs.Create("/d/ledger.db")
		if err != nil {
			t.Fatal(err)
		}
		f.Write(content)
		f.Close()
		ffs := &c03FlakyStatFS{FileSystem: mfs, failPath: "/d/ledger.db"}
		nfs, err := New(ffs, ExportOptions{})
		if err != nil {
			t.Fatal(err)
		}
		server := &Server{handler: nfs, options: ServerOptions{}}
		handler := &NFSProcedureHandler{server: server}
		authCtx := &AuthContext{ClientIP: "127.0.0.1", ClientPort: 700}
		dirNode, err := nfs.Lookup("/d")
		if err != nil {
			t.Fatal(err)
		}
		dirHandle := nfs.fileMap.Allocate(dirNode)
		if _, err := nfs.GetAttr(dirNode); err != nil {
			t.Fatal(err)
		}
		ffs.fail = true
		var buf bytes.Buffer
		xdrEncodeFileHandle(&buf, dirHandle)
		xdrEncodeString(&buf, "ledger.db")
		binary.Write(&buf, binary.BigEndian, how)
		for i := 0; i < 6; i++ { // sattr3: nothing set
			binary.Write(&buf, binary.BigEndian, uint32(0))
		}
		res, err := handler.handleCreate(bytes.NewReader(buf.Bytes()), &RPCReply{AcceptStatus: SUCCESS}, authCtx)
		if err != nil {
			t.Fatalf("handleCreate: %v", err)
		}
		status := binary.BigEndian.Uint32(res.Data.([]byte)[0:4])
		ffs.fail = false
		rf, err := mfs.OpenFile("/d/ledger.db", os.O_RDONLY, 0)
		if err != nil {
			t.Fatalf("ledger.db is gone: %v", err)
		}
		got, _ := io.ReadAll(rf)
		rf.Close()
		if !bytes.Equal(got, content) {
			t.Errorf("C03 violated: CREATE (how=%d, status %d) after a failed stat rewrote the existing file: %q", how, status, got)
		}
		nfs.Close()
	}
}
