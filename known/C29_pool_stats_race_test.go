package absnfs

// Witness for the C29 finding (fixed, 53dd916) "WorkerPool.Stats reads taskQueue after releasing resizeMu": Resize replaces
// taskQueue while holding resizeMu, so a Stats call during a tuning update that resizes the pool was a data race on
// the field. Needs the race detector: go test -race (tools/overlay_test.sh adds the flag for this file).

import (
	"io"
	"log"
	"sync"
	"testing"
	"time"
)

func TestVerifC29PoolStatsRace(t *testing.T) {
	nfs := &AbsfsNFS{}
	nfs.logger = log.New(io.Discard, "", 0)
	p := NewWorkerPool(2, nfs)
	p.Start()
	defer p.Stop()
	var wg sync.WaitGroup
	stop := make(chan struct{})
	wg.Add(2)
	go func() {
		defer wg.Done()
		for {
			select {
			case <-stop:
				return
			default:
			}
			p.Stats()
		}
	}()
	go func() {
		defer wg.Done()
		for i := 0; i < 2000; i++ {
			p.Resize(2 + i%3)
		}
	}()
	time.Sleep(200 * time.Millisecond)
	close(stop)
	wg.Wait()
}
