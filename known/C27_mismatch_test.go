package absnfs

import (
	"encoding/binary"
	"testing"
)

// Witness for C27/C14 (well-formed replies): an accepted reply with PROG_MISMATCH must carry
// mismatch_info {low, high} (RFC 1831 section 9, accepted_reply).
func TestVerifC27ProgMismatchInfo(t *testing.T) {
	pm := NewPortmapper()
	reply, err := pm.handleCall(verifPmCall2(7, 0), nil)
	if err != nil {
		t.Fatal(err)
	}
	if len(reply) != 32 {
		t.Fatalf("C27 violated: PROG_MISMATCH reply is %d bytes, want 32 (header 24 + low + high)", len(reply))
	}
	if st := binary.BigEndian.Uint32(reply[20:24]); st != PROG_MISMATCH {
		t.Fatalf("accept_stat %d", st)
	}
	lo, hi := binary.BigEndian.Uint32(reply[24:28]), binary.BigEndian.Uint32(reply[28:32])
	if lo != 2 || hi != 4 {
		t.Fatalf("C27 violated: mismatch_info low=%d high=%d, want 2..4", lo, hi)
	}
}

func verifPmCall2(vers, proc uint32) []byte {
	b := make([]byte, 0, 40)
	for _, w := range []uint32{9, RPC_CALL, 2, PortmapperProgram, vers, proc, 0, 0, 0, 0} {
		b = binary.BigEndian.AppendUint32(b, w)
	}
	return b
}
