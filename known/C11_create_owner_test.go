package absnfs

import (
	"testing"

	"github.com/absfs/absfs"
	"github.com/absfs/memfs"
)

type verifC11FS struct {
	absfs.SymlinkFileSystem
	chowns [][3]interface{}
}

func (f *verifC11FS) Chown(name string, uid, gid int) error {
	f.chowns = append(f.chowns, [3]interface{}{name, uid, gid})
	return f.SymlinkFileSystem.Chown(name, uid, gid)
}

// Witness for C11 (fixed): an object made by CREATE must be recorded in the backend with the identity the
// procedure handler computed (the caller's effective uid/gid), as MKDIR and SYMLINK objects are.
func TestVerifC11CreateRecordsOwner(t *testing.T) {
	mfs, err := memfs.NewFS()
	if err != nil {
		t.Fatal(err)
	}
	rec := &verifC11FS{SymlinkFileSystem: mfs}
	n, err := New(rec, ExportOptions{})
	if err != nil {
		t.Fatal(err)
	}
	defer n.Close()
	root, err := n.Lookup("/")
	if err != nil {
		t.Fatal(err)
	}
	if _, err := n.Create(root, "f", &NFSAttrs{Mode: 0644, Uid: 1000, Gid: 1001}); err != nil {
		t.Fatal(err)
	}
	for _, c := range rec.chowns {
		if c[0] == "/f" && c[1] == 1000 && c[2] == 1001 {
			return
		}
	}
	t.Fatalf("C11 violated: CREATE by uid 1000 gid 1001 never asked the backend to record that owner (chown calls: %v)", rec.chowns)
}
