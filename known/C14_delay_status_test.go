package absnfs

import (
	"context"
	"testing"
)

// Witness for C14 (fixed): every NFS status on the wire is a member of the RFC 1813 nfsstat3 enumeration. The
// status sent for an operation that timed out, and for a rate-limited READ/WRITE/READDIR, was 10013, which is
// not an nfsstat3 value (NFSv3's "try again later" is NFS3ERR_JUKEBOX = 10008).
func TestVerifC14DelayStatusIsNfsstat3(t *testing.T) {
	in := func(s uint32) bool {
		switch s {
		case 0, 1, 2, 5, 6, 13, 17, 18, 19, 20, 21, 22, 27, 28, 30, 31, 63, 66, 69, 70, 71:
			return true
		}
		return s >= 10001 && s <= 10008
	}
	for _, err := range []error{ErrTimeout, context.DeadlineExceeded} {
		if s := mapError(err); !in(s) {
			t.Fatalf("C14 violated: mapError(%v) = %d is not an nfsstat3 value", err, s)
		}
	}
	if !in(NFSERR_DELAY) {
		t.Fatalf("C14 violated: the rate-limit status NFSERR_DELAY = %d is not an nfsstat3 value", NFSERR_DELAY)
	}
}
