package absnfs

// Witness for the C29 finding "handleConnectionLoop reads AbsfsNFS.rateLimiter without policyRWMu": the field is
// replaced by UpdatePolicyOptions under policyRWMu.Lock, the procedure handlers read it under the read lock that
// HandleCall holds for them, but every new connection reads it with no lock at all - a policy update while a client
// connects is a data race on the field. Needs the race detector: go test -race.

import (
	"io"
	"net"
	"sync"
	"testing"
	"time"

	"github.com/absfs/memfs"
)

type verifEOFConnIO struct{}

func (verifEOFConnIO) ReadCall() (*RPCCall, io.Reader, error) { return nil, nil, io.EOF }
func (verifEOFConnIO) WriteReply(*RPCReply) error              { return nil }

func TestVerifC29RateLimiterRace(t *testing.T) {
	mfs, err := memfs.NewFS()
	if err != nil {
		t.Fatal(err)
	}
	n, err := New(mfs, ExportOptions{})
	if err != nil {
		t.Fatal(err)
	}
	defer n.Close()
	srv, err := NewServer(ServerOptions{})
	if err != nil {
		t.Fatal(err)
	}
	srv.SetHandler(n)
	h := &NFSProcedureHandler{server: srv}
	var wg sync.WaitGroup
	wg.Add(2)
	go func() {
		defer wg.Done()
		for i := 0; i < 300; i++ {
			p := *n.policy.Load()
			p.EnableRateLimiting = i%2 == 0
			cfg := DefaultRateLimiterConfig()
			p.RateLimitConfig = &cfg
			if err := n.UpdatePolicyOptions(p); err != nil {
				t.Error(err)
				return
			}
		}
	}()
	go func() {
		defer wg.Done()
		for i := 0; i < 300; i++ {
			a, b := net.Pipe()
			b.Close()
			srv.handleConnectionLoop(a, h, verifEOFConnIO{}, time.Second, time.Second)
		}
	}()
	wg.Wait()
}
