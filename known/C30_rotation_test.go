package absnfs

import (
	"crypto/ecdsa"
	"crypto/elliptic"
	"crypto/rand"
	"crypto/x509"
	"crypto/x509/pkix"
	"encoding/pem"
	"math/big"
	"os"
	"path/filepath"
	"testing"
	"time"

	"github.com/absfs/memfs"
)

func verifC30WritePair(t *testing.T, dir string, serial int64) {
	key, err := ecdsa.GenerateKey(elliptic.P256(), rand.Reader)
	if err != nil {
		t.Fatal(err)
	}
	tmpl := &x509.Certificate{SerialNumber: big.NewInt(serial), Subject: pkix.Name{CommonName: "verif"},
		NotBefore: time.Now().Add(-time.Hour), NotAfter: time.Now().Add(time.Hour)}
	der, err := x509.CreateCertificate(rand.Reader, tmpl, tmpl, &key.PublicKey, key)
	if err != nil {
		t.Fatal(err)
	}
	kb, err := x509.MarshalECPrivateKey(key)
	if err != nil {
		t.Fatal(err)
	}
	if err := os.WriteFile(filepath.Join(dir, "c.pem"), pem.EncodeToMemory(&pem.Block{Type: "CERTIFICATE", Bytes: der}), 0o600); err != nil {
		t.Fatal(err)
	}
	if err := os.WriteFile(filepath.Join(dir, "k.pem"), pem.EncodeToMemory(&pem.Block{Type: "EC PRIVATE KEY", Bytes: kb}), 0o600); err != nil {
		t.Fatal(err)
	}
}

// Witness for the C30 known finding: the documented rotation step, ReloadCertificates on the TLS settings
// returned by GetExportOptions, acts on a clone; the certificate callback of the configuration the listener
// was built from keeps serving the old certificate.
func TestVerifC30RotationActsOnClone(t *testing.T) {
	dir := t.TempDir()
	verifC30WritePair(t, dir, 1)
	fs, err := memfs.NewFS()
	if err != nil {
		t.Fatal(err)
	}
	tc := DefaultTLSConfig()
	tc.Enabled = true
	tc.CertFile = filepath.Join(dir, "c.pem")
	tc.KeyFile = filepath.Join(dir, "k.pem")
	n, err := New(fs, ExportOptions{TLS: tc})
	if err != nil {
		t.Fatal(err)
	}
	defer n.Close()
	live := n.policy.Load().TLS
	cfg, err := live.BuildConfig() // what Server.Listen hands to tls.Listen
	if err != nil {
		t.Fatal(err)
	}
	before, _ := cfg.GetCertificate(nil)
	verifC30WritePair(t, dir, 2)
	opts := n.GetExportOptions()
	if opts.TLS == nil {
		t.Fatal("no TLS settings returned")
	}
	if err := opts.TLS.ReloadCertificates(); err != nil {
		t.Fatal(err)
	}
	after, _ := cfg.GetCertificate(nil)
	if opts.TLS != live || after == before {
		t.Fatalf("C30 violated: GetExportOptions().TLS is %p, the listener's settings are %p; after ReloadCertificates the handshake callback still serves the old certificate (same pointer: %v)", opts.TLS, live, after == before)
	}
}
