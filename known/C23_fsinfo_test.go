package absnfs

import (
	"bytes"
	"encoding/binary"
	"testing"

	"github.com/absfs/memfs"
)

// Witness for C23 (fixed): a WRITE whose count equals the wtmax FSINFO advertises must be served, whatever
// TransferSize is configured; and the advertised maxima must leave room for the RPC header in one record.
func TestVerifC23AdvertisedMaximaAreServed(t *testing.T) {
	mfs, err := memfs.NewFS()
	if err != nil {
		t.Fatal(err)
	}
	n, err := New(mfs, ExportOptions{TransferSize: 4096})
	if err != nil {
		t.Fatal(err)
	}
	defer n.Close()
	root, err := n.Lookup("/")
	if err != nil {
		t.Fatal(err)
	}
	node, err := n.Create(root, "f", &NFSAttrs{Mode: 0644})
	if err != nil {
		t.Fatal(err)
	}
	srv, err := NewServer(ServerOptions{})
	if err != nil {
		t.Fatal(err)
	}
	srv.SetHandler(n)
	h := &NFSProcedureHandler{server: srv}
	id := n.fileMap.Allocate(node)

	var body bytes.Buffer
	binary.Write(&body, binary.BigEndian, uint32(8))
	binary.Write(&body, binary.BigEndian, uint64(id))
	reply, err := h.handleFsinfo(&body, &RPCReply{}, &AuthContext{})
	if err != nil {
		t.Fatal(err)
	}
	data, _ := reply.Data.([]byte)
	if len(data) < 116 || binary.BigEndian.Uint32(data) != NFS_OK {
		t.Fatalf("FSINFO failed: %v", data)
	}
	rtmax := binary.BigEndian.Uint32(data[92:])
	wtmax := binary.BigEndian.Uint32(data[104:])
	if rtmax+4096 > DefaultMaxRecordSize || wtmax+4096 > DefaultMaxRecordSize {
		t.Fatalf("C23 violated: advertised rtmax=%d wtmax=%d do not fit a %d-byte record together with the RPC header", rtmax, wtmax, DefaultMaxRecordSize)
	}
	var w bytes.Buffer
	binary.Write(&w, binary.BigEndian, uint32(8))
	binary.Write(&w, binary.BigEndian, uint64(id))
	binary.Write(&w, binary.BigEndian, uint64(0)) // offset
	binary.Write(&w, binary.BigEndian, wtmax)     // count
	binary.Write(&w, binary.BigEndian, uint32(2)) // FILE_SYNC
	binary.Write(&w, binary.BigEndian, wtmax)     // opaque length
	w.Write(make([]byte, int(wtmax)+(4-int(wtmax)%4)%4))
	wreply, err := h.handleWrite(&w, &RPCReply{}, &AuthContext{})
	if err != nil {
		t.Fatal(err)
	}
	wd, _ := wreply.Data.([]byte)
	if len(wd) < 4 || binary.BigEndian.Uint32(wd) != NFS_OK {
		t.Fatalf("C23 violated: TransferSize=4096, FSINFO advertises wtmax=%d, but a WRITE of exactly that count is answered with status %d", wtmax, binary.BigEndian.Uint32(wd))
	}
}

// Second witness (fixed): a transfer size of 2^32+1 used to wrap to a 1-byte WRITE limit.
func TestVerifC23HugeTransferSizeDoesNotWrap(t *testing.T) {
	mfs, err := memfs.NewFS()
	if err != nil {
		t.Fatal(err)
	}
	n, err := New(mfs, ExportOptions{TransferSize: 1<<32 + 1})
	if err != nil {
		t.Fatal(err)
	}
	defer n.Close()
	root, err := n.Lookup("/")
	if err != nil {
		t.Fatal(err)
	}
	node, err := n.Create(root, "g", &NFSAttrs{Mode: 0644})
	if err != nil {
		t.Fatal(err)
	}
	srv, err := NewServer(ServerOptions{})
	if err != nil {
		t.Fatal(err)
	}
	srv.SetHandler(n)
	h := &NFSProcedureHandler{server: srv}
	id := n.fileMap.Allocate(node)
	var w bytes.Buffer
	binary.Write(&w, binary.BigEndian, uint32(8))
	binary.Write(&w, binary.BigEndian, uint64(id))
	binary.Write(&w, binary.BigEndian, uint64(0))
	binary.Write(&w, binary.BigEndian, uint32(8))
	binary.Write(&w, binary.BigEndian, uint32(2))
	binary.Write(&w, binary.BigEndian, uint32(8))
	w.Write([]byte("12345678"))
	wreply, err := h.handleWrite(&w, &RPCReply{}, &AuthContext{})
	if err != nil {
		t.Fatal(err)
	}
	wd, _ := wreply.Data.([]byte)
	if len(wd) < 4 || binary.BigEndian.Uint32(wd) != NFS_OK {
		t.Fatalf("C23 violated: TransferSize=2^32+1: an 8-byte WRITE is answered with status %d", binary.BigEndian.Uint32(wd))
	}
}
