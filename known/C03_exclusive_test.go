package absnfs

import (
	"bytes"
	"encoding/binary"
	"testing"

	"github.com/absfs/memfs"
)

// Witness for the known finding C03-exclusive-verifier: an EXCLUSIVE CREATE of a name that already exists (and was
// not made by an exclusive create with this verifier) must fail with NFS3ERR_EXIST; the server answers NFS3_OK
// because the verifier is never stored or compared.
func TestVerifC03ExclusiveVerifierIgnored(t *testing.T) {
	mfs, err := memfs.NewFS()
	if err != nil {
		t.Fatal(err)
	}
	f, err := mfs.Create("/f")
	if err != nil {
		t.Fatal(err)
	}
	f.Close()
	n, err := New(mfs, ExportOptions{})
	if err != nil {
		t.Fatal(err)
	}
	defer n.Close()
	srv, err := NewServer(ServerOptions{})
	if err != nil {
		t.Fatal(err)
	}
	srv.SetHandler(n)
	h := &NFSProcedureHandler{server: srv}
	root, err := n.Lookup("/")
	if err != nil {
		t.Fatal(err)
	}
	var b bytes.Buffer
	binary.Write(&b, binary.BigEndian, uint32(8))
	binary.Write(&b, binary.BigEndian, n.fileMap.Allocate(root))
	binary.Write(&b, binary.BigEndian, uint32(1))
	b.WriteString("f\x00\x00\x00")
	binary.Write(&b, binary.BigEndian, uint32(2))
	b.Write([]byte{9, 9, 9, 9, 9, 9, 9, 9})
	reply, err := h.handleCreate(&b, &RPCReply{}, &AuthContext{ClientIP: "127.0.0.1"})
	if err != nil {
		t.Fatal(err)
	}
	if st := binary.BigEndian.Uint32(reply.Data.([]byte)); st != 17 {
		t.Fatalf("C03 violated (known finding C03-exclusive-verifier): EXCLUSIVE CREATE of an existing name with a foreign verifier answers status %d, want NFS3ERR_EXIST (17)", st)
	}
}
