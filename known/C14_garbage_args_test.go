package absnfs

import (
	"bytes"
	"encoding/binary"
	"testing"

	"github.com/absfs/memfs"
)

// Witness for the known finding C14-garbage-args: a GETATTR whose arguments cannot be decoded is answered with
// the value 4 (GARBAGE_ARGS, an RPC accept_stat) in the nfsstat3 position; 4 is not an nfsstat3 value.
func TestVerifC14GarbageArgsStatus(t *testing.T) {
	mfs, err := memfs.NewFS()
	if err != nil {
		t.Fatal(err)
	}
	n, err := New(mfs, ExportOptions{})
	if err != nil {
		t.Fatal(err)
	}
	defer n.Close()
	srv, err := NewServer(ServerOptions{})
	if err != nil {
		t.Fatal(err)
	}
	srv.SetHandler(n)
	h := &NFSProcedureHandler{server: srv}
	reply, err := h.handleGetattr(bytes.NewReader([]byte{0, 0}), &RPCReply{}, &AuthContext{ClientIP: "127.0.0.1"})
	if err != nil {
		t.Fatal(err)
	}
	status := binary.BigEndian.Uint32(reply.Data.([]byte))
	if status == 4 {
		t.Fatalf("C14 violated (known finding C14-garbage-args): truncated GETATTR arguments -> status word %d, which is not an nfsstat3 value", status)
	}
}
