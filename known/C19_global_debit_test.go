package absnfs

import "testing"

// Witness for C19 (known finding C19-global-first): a request refused by its own per-IP limit has
// already consumed a token of the global bucket shared with every other client.
func TestVerifC19RefusedRequestDebitsGlobal(t *testing.T) {
	cfg := DefaultRateLimiterConfig()
	cfg.GlobalRequestsPerSecond = 100
	cfg.PerIPRequestsPerSecond = 0
	cfg.PerIPBurstSize = 1
	cfg.PerConnectionRequestsPerSecond = 0
	rl := NewRateLimiter(cfg)
	rl.globalLimiter.refillRate = 0 // freeze refill so token counts are exact
	if !rl.AllowRequest("10.0.0.9", "c1") {
		t.Fatal("setup: first request should pass")
	}
	before := rl.globalLimiter.tokens
	if rl.AllowRequest("10.0.0.9", "c1") {
		t.Fatal("setup: second request should be refused by the per-IP limit")
	}
	if after := rl.globalLimiter.tokens; after != before {
		t.Fatalf("C19 violated: refused request consumed global capacity (%v -> %v)", before, after)
	}
}
