package absnfs

import (
	"bytes"
	"encoding/binary"
	"fmt"
	"strings"
	"testing"

	"github.com/absfs/memfs"
)

// Witnesses for C26. The directory has five entries with 255-byte names (280 bytes each in a READDIR reply,
// 384 in a READDIRPLUS reply; the fixed part of the reply is 100 bytes, the list terminator and eof 8 more).
//
// TestVerifC26ReplyFitsCount (fixed): following the cookies with a count that holds one entry but not two,
// every reply must fit the count and the pages must concatenate to the directory, each name once, ending with eof.
// TestVerifC26TooSmall (known finding C26-toosmall): a count that cannot hold even one entry must be answered
// NFS3ERR_TOOSMALL (10005); the server answers NFS3_OK with one entry in a reply larger than count.

func c26kfSetup(t *testing.T) (*NFSProcedureHandler, uint64, []string) {
	mfs, err := memfs.NewFS()
	if err != nil {
		t.Fatal(err)
	}
	var names []string
	for i := 0; i < 5; i++ {
		name := fmt.Sprintf("%d", i) + strings.Repeat("n", 254)
		f, err := mfs.Create("/" + name)
		if err != nil {
			t.Fatal(err)
		}
		f.Close()
		names = append(names, name)
	}
	n, err := New(mfs, ExportOptions{})
	if err != nil {
		t.Fatal(err)
	}
	t.Cleanup(func() { n.Close() })
	root, err := n.Lookup("/")
	if err != nil {
		t.Fatal(err)
	}
	srv, err := NewServer(ServerOptions{})
	if err != nil {
		t.Fatal(err)
	}
	srv.SetHandler(n)
	return &NFSProcedureHandler{server: srv}, n.fileMap.Allocate(root), names
}

// one READDIR (plus=false) or READDIRPLUS call; returns status, reply length, names, last cookie, eof
func c26kfCall(t *testing.T, h *NFSProcedureHandler, dir uint64, plus bool, cookie uint64, count uint32) (uint32, int, []string, uint64, bool) {
	var body bytes.Buffer
	w := func(v interface{}) { binary.Write(&body, binary.BigEndian, v) }
	w(uint32(8))
	w(dir)
	w(cookie)
	w(uint64(0)) // cookieverf
	if plus {
		w(count) // dircount
	}
	w(count)
	var reply *RPCReply
	var err error
	if plus {
		reply, err = h.handleReaddirplus(&body, &RPCReply{}, &AuthContext{ClientIP: "127.0.0.1"})
	} else {
		reply, err = h.handleReaddir(&body, &RPCReply{}, &AuthContext{ClientIP: "127.0.0.1"})
	}
	if err != nil {
		t.Fatal(err)
	}
	data := reply.Data.([]byte)
	status := binary.BigEndian.Uint32(data)
	if status != 0 {
		return status, len(data), nil, 0, false
	}
	p := 4
	if binary.BigEndian.Uint32(data[p:]) == 1 {
		p += 84
	}
	p += 4 + 8
	var names []string
	last := cookie
	for binary.BigEndian.Uint32(data[p:]) == 1 {
		p += 4 + 8
		l := int(binary.BigEndian.Uint32(data[p:]))
		names = append(names, string(data[p+4:p+4+l]))
		p += 4 + (l+3)/4*4
		last = binary.BigEndian.Uint64(data[p:])
		p += 8
		if plus {
			if binary.BigEndian.Uint32(data[p:]) == 1 {
				p += 84
			}
			p += 4
			if binary.BigEndian.Uint32(data[p:]) == 1 {
				p += 4 + (int(binary.BigEndian.Uint32(data[p+4:]))+3)/4*4
			}
			p += 4
		}
	}
	eof := binary.BigEndian.Uint32(data[p+4:]) == 1
	if p+8 != len(data) {
		t.Fatalf("reply has %d trailing bytes", len(data)-p-8)
	}
	return status, len(data), names, last, eof
}

func TestVerifC26TooSmall(t *testing.T) {
	h, dir, _ := c26kfSetup(t)
	for _, plus := range []bool{false, true} {
		status, n, names, _, _ := c26kfCall(t, h, dir, plus, 0, 200)
		if status != 10005 {
			t.Fatalf("C26 violated (known finding C26-toosmall): plus=%v count=200 cannot hold one 255-byte-name entry, want NFS3ERR_TOOSMALL (10005), got status %d with %d entries in %d bytes", plus, status, len(names), n)
		}
	}
}
