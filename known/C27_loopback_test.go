package absnfs

import (
	"bytes"
	"encoding/binary"
	"net"
	"testing"
)

type verifAddr struct{ s string }

func (a verifAddr) Network() string { return "tcp" }
func (a verifAddr) String() string  { return a.s }

func verifPmCall(vers, proc uint32, args []byte) []byte {
	var buf bytes.Buffer
	for _, w := range []uint32{7, RPC_CALL, 2, PortmapperProgram, vers, proc, 0, 0, 0, 0} {
		binary.Write(&buf, binary.BigEndian, w)
	}
	buf.Write(args)
	return buf.Bytes()
}

// Witness for C27: rpcbind v3/v4 SET from a non-loopback peer must not change the registry.
func TestVerifC27RpcbSetFromRemote(t *testing.T) {
	for _, vers := range []uint32{3, 4} {
		pm := NewPortmapper()
		var args bytes.Buffer
		binary.Write(&args, binary.BigEndian, uint32(NFS_PROGRAM))
		binary.Write(&args, binary.BigEndian, uint32(NFS_V3))
		xdrEncodeString(&args, "tcp")
		xdrEncodeString(&args, "6.6.6.6.8.1") // port 2049
		xdrEncodeString(&args, "attacker")
		remote := &net.TCPAddr{IP: net.ParseIP("8.8.8.8"), Port: 40000}
		if _, err := pm.handleCall(verifPmCall(vers, 1, args.Bytes()), remote); err != nil {
			t.Fatal(err)
		}
		if p := pm.GetPort(NFS_PROGRAM, NFS_V3, IPPROTO_TCP); p != 0 {
			t.Fatalf("C27 violated: rpcbind v%d SET from 8.8.8.8 registered port %d", vers, p)
		}
		pm.RegisterService(NFS_PROGRAM, NFS_V3, IPPROTO_TCP, 2049)
		var uargs bytes.Buffer
		binary.Write(&uargs, binary.BigEndian, uint32(NFS_PROGRAM))
		binary.Write(&uargs, binary.BigEndian, uint32(NFS_V3))
		xdrEncodeString(&uargs, "tcp")
		xdrEncodeString(&uargs, "")
		xdrEncodeString(&uargs, "")
		pm.handleCall(verifPmCall(vers, 2, uargs.Bytes()), remote)
		if p := pm.GetPort(NFS_PROGRAM, NFS_V3, IPPROTO_TCP); p != 2049 {
			t.Fatalf("C27 violated: rpcbind v%d UNSET from 8.8.8.8 removed the mapping", vers)
		}
	}
}

// Witness for C27: a peer whose address does not parse as an IP (e.g. a zoned IPv6 literal) is not loopback.
func TestVerifC27UnparsablePeer(t *testing.T) {
	pm := NewPortmapper()
	var args bytes.Buffer
	for _, w := range []uint32{NFS_PROGRAM, NFS_V3, IPPROTO_TCP, 2049} {
		binary.Write(&args, binary.BigEndian, w)
	}
	pm.handleCall(verifPmCall(2, PMAPPROC_SET, args.Bytes()), verifAddr{"[fe80::1%eth0]:999"})
	if p := pm.GetPort(NFS_PROGRAM, NFS_V3, IPPROTO_TCP); p != 0 {
		t.Fatalf("C27 violated: portmap v2 SET from an unparsable (non-loopback) peer registered port %d", p)
	}
}
