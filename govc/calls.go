package main

// calls.go: calls, contracts at call sites, builtins, defers, locks.

import (
	"fmt"
	"go/ast"
	"go/token"
	"go/types"
	"sort"
	"strings"

	"golang.org/x/tools/go/ssa"
)

func (fv *FuncVC) findContract(keys []string) *Contract {
	for _, k := range keys {
		if c, ok := fv.g.spec.Contracts[k]; ok {
			return c
		}
	}
	return nil
}

// argVals evaluates call arguments (receiver first for method calls / invokes).
func (fv *FuncVC) argVals(c *ssa.CallCommon) []*Val {
	var out []*Val
	if c.IsInvoke() {
		out = append(out, fv.val(c.Value))
	}
	for _, a := range c.Args {
		out = append(out, fv.val(a))
	}
	return out
}

func (fv *FuncVC) execCall(in ssa.Instruction, c *ssa.CallCommon, reg ssa.Value) {
	res := fv.doCall(in, c, fv.argVals(c), nil)
	if reg != nil && res != nil {
		fv.setReg(reg, res)
	}
}

// doCall performs the call effect in the current state; returns the result value.
func (fv *FuncVC) doCall(in ssa.Instruction, c *ssa.CallCommon, args []*Val, closure *Val) *Val {
	sig := c.Signature()
	var resT types.Type = sig.Results()
	if sig.Results().Len() == 1 {
		resT = sig.Results().At(0).Type()
	}
	pos := in.Pos()
	if b, ok := c.Value.(*ssa.Builtin); ok {
		// call-site clauses may name a builtin ("callassert builtin.delete : ...")
		bk := []string{"builtin." + b.Name()}
		fv.callOrd[bk[0]]++
		fv.callAsserts(bk, fv.callOrd[bk[0]], args, nil, nil, "before", pos)
		return fv.builtin(b, c, args, resT, pos)
	}
	if _, isGo := in.(*ssa.Go); !isGo {
		fv.guardDeepCall(c, pos)
	}
	keys := calleeKeys(c)
	var callee *ssa.Function
	var binds []*Val
	if !c.IsInvoke() {
		switch f := c.Value.(type) {
		case *ssa.Function:
			callee = f
		default:
			v := fv.val(c.Value)
			if v.Fn != nil {
				callee = v.Fn.(*ssa.Function)
				binds = v.Bind
				keys = []string{funcKey(callee)}
			}
		}
	}
	if callee == nil && !c.IsInvoke() {
		// a call through a value of a named function type under contract
		if k := fv.g.funcTypeKey(c.Value.Type()); k != "" {
			keys = []string{k}
		}
	}
	ord := 0
	if len(keys) > 0 {
		fv.callOrd[keys[0]]++
		ord = fv.callOrd[keys[0]]
	}
	// call-site assertions / rules (before)
	fv.callAsserts(keys, ord, args, callee, nil, "before", pos)

	// hard-wired primitives
	if r, ok := fv.primitive(keys, c, args, resT, pos); ok {
		fv.callAsserts(keys, ord, args, callee, r, "after", pos)
		return r
	}
	if _, isGo := in.(*ssa.Go); !isGo && callee != nil && callee.Blocks != nil {
		fv.guardNoRelock(callee, pos)
	}
	con := fv.findContract(keys)
	var res *Val
	if con != nil {
		if callee != nil && callee.Blocks != nil && con.Assumed {
			fv.assumedUsed[keys[0]+" (repo function, contract assumed)"] = true
		} else if con.Assumed {
			fv.assumedUsed[keys[0]] = true
		}
		res = fv.applyContract(con, callee, c, args, binds, resT, keys[0], ord, pos)
	} else {
		name := "?"
		if len(keys) > 0 {
			name = keys[0]
		}
		if callee != nil && callee.Blocks != nil {
			fv.uncontracted[name] = true
			mod := fv.g.modOf(callee)
			fv.havocMod(mod, args)
			// closures may write captured cells
		} else if callee != nil {
			fv.extCalls[name] = true
			fv.havocExt(args, c)
		} else {
			// unknown callee (function value / interface method without spec)
			fv.uncontracted[name+" (dynamic)"] = true
			if c.IsInvoke() {
				fv.havocMod(fv.g.modOfInvoke(c), args)
			} else {
				// A-CALLBACK: a function value supplied by the caller modifies only memory reachable
				// from the arguments it is given
				fv.note("call of an unknown function value: havoc of the memory reachable from its arguments (A-CALLBACK)")
				fv.havocExtTyped(args)
			}
		}
		if _, isTuple := resT.(*types.Tuple); isTuple && resT.(*types.Tuple).Len() == 0 {
			res = &Val{Typ: resT}
		} else {
			res = fv.havocVal("r."+sanitize(name), resT)
		}
	}
	fv.callAsserts(keys, ord, args, callee, res, "after", pos)
	return res
}

// contractEnv builds the evaluation environment of a contract at a call site or at function entry.
func (fv *FuncVC) paramNames(con *Contract, callee *ssa.Function, c *ssa.CallCommon) []string {
	var names []string
	if con != nil && len(con.Params) > 0 {
		for _, p := range con.Params {
			names = append(names, p.Name)
		}
		return names
	}
	if callee != nil {
		for _, p := range callee.Params {
			names = append(names, p.Name())
		}
		return names
	}
	if c != nil {
		sig := c.Signature()
		if c.IsInvoke() {
			names = append(names, "recv")
		}
		for i := 0; i < sig.Params().Len(); i++ {
			n := sig.Params().At(i).Name()
			if n == "" || n == "_" {
				n = fmt.Sprintf("arg%d", i)
			}
			names = append(names, n)
		}
	}
	return names
}

func (fv *FuncVC) bindResults(env *Env, res *Val, callee *ssa.Function, con *Contract, sig *types.Signature) {
	if res == nil {
		return
	}
	if res.Tuple != nil {
		for i, r := range res.Tuple {
			env.vars[fmt.Sprintf("result%d", i)] = r
			if n := sig.Results().At(i).Name(); n != "" && n != "_" {
				if _, exists := env.vars[n]; !exists {
					env.vars[n] = r
				}
			}
			if con != nil && i < len(con.Results) {
				env.vars[con.Results[i].Name] = r
			}
		}
		if len(res.Tuple) > 0 {
			env.vars["result"] = res.Tuple[0]
		}
	} else if res.T != "" {
		env.vars["result"] = res
		env.vars["result0"] = res
		if sig.Results().Len() == 1 {
			if n := sig.Results().At(0).Name(); n != "" && n != "_" {
				if _, exists := env.vars[n]; !exists {
					env.vars[n] = res
				}
			}
		}
		if con != nil && len(con.Results) > 0 {
			env.vars[con.Results[0].Name] = res
		}
	}
}

func (fv *FuncVC) applyContract(con *Contract, callee *ssa.Function, c *ssa.CallCommon, args, binds []*Val, resT types.Type, key string, ord int, pos token.Pos) *Val {
	names := fv.paramNames(con, callee, c)
	pre := fv.cur.clone()
	allocOld := fv.heapGet("alloc", "Int")
	env := &Env{fv: fv, st: pre, old: pre, vars: map[string]*Val{}, allocOld: allocOld}
	for i, n := range names {
		if i < len(args) {
			a := args[i]
			if a.Place != nil {
				// address of a sub-location passed to a contracted callee: identity only
				a = &Val{T: fv.placeToValue(a.Place, a.Typ), Typ: a.Typ}
			}
			env.vars[n] = a
		}
	}
	if callee != nil {
		for i, f := range callee.FreeVars {
			if i < len(binds) {
				// free variables are pointers to the captured variable
				env.vars["&"+f.Name()] = binds[i]
				env.vars[f.Name()] = fv.loadPlace(pre, fv.placeFromPointer(binds[i]))
			}
		}
	}
	// preconditions
	partialCaller := fv.con != nil && fv.con.Partial
	var preAll []string
	for i, r := range con.Requires {
		if r.Free {
			continue
		}
		t := env.tr(r.Expr)
		fv.reportSpecErrs(env, r)
		label := r.Label
		if label == "" {
			label = fmt.Sprintf("%d", i+1)
		}
		props := fv.propsFor(r)
		if gp := fv.g.guardProps(); len(gp) > 0 && heldLockRe.MatchString(r.Src) && !fv.inGo {
			// a lock the callee relies on its caller for: part of the guarded_by pass, claimed in every caller
			// (partial or not) - guarded.go
			fv.oblige("guarded", fmt.Sprintf("held-at-call#%s#%d#%s", key, ord, label), gp, t.T,
				"the callee is entered with a lock held: "+r.Src, fv.posStr(pos))
		}
		ob := fv.oblige("call-pre", fmt.Sprintf("%s#%d#%s", key, ord, label), props, t.T, r.Src, fv.posStr(pos))
		if partialCaller {
			// partial caller: the precondition is not taken for granted afterwards; the callee's
			// postcondition is used under it
			ob.Abstract = true
			preAll = append(preAll, t.T)
		} else {
			fv.assume(t.T)
		}
	}
	if fv.inGo && con.Thread {
		// detached thread: started once its precondition holds; what it does afterwards is concurrent
		// interference (A-SEQ) and is verified against the thread's own contract, not applied here
		fv.note("go statement: detached thread " + key + " (precondition checked at spawn)")
		return &Val{Typ: resT}
	}
	// effects
	fv.applyModifies(con, callee, env, args)
	if con.Assumed && !con.Pure && c != nil && (callee == nil || callee.Blocks == nil) {
		// an external function handed a pointer boxed in an interface (errors.As(err, &target), fmt.Sscan ...)
		// may write through it, unless its assumed contract says exactly what it writes (ptrof designators)
		explicit := false
		for _, d := range con.Modifies {
			if strings.Contains(d, "ptrof(") {
				explicit = true
			}
		}
		if !explicit {
			for _, a := range c.Args {
				mi, ok := a.(*ssa.MakeInterface)
				if !ok {
					continue
				}
				pt, ok := mi.X.Type().Underlying().(*types.Pointer)
				if !ok {
					continue
				}
				if _, isStruct := pt.Elem().Underlying().(*types.Struct); isStruct {
					continue // struct targets are covered by the reachable-heap rule of the write-set inference
				}
				if pv, ok := fv.regs[mi.X]; ok && pv != nil && pv.T != "" {
					p := fv.placeFromPointer(pv)
					fv.storePlace(p, fv.havocVal("boxed", pt.Elem()))
				}
			}
		}
	}
	// results
	var res *Val
	if tup, ok := resT.(*types.Tuple); ok && tup.Len() == 0 {
		res = &Val{Typ: resT}
	} else {
		res = fv.havocVal("r."+sanitize(key), resT)
	}
	post := &Env{fv: fv, st: fv.cur, old: pre, vars: env.vars, allocOld: allocOld, calleeView: true}
	var sig *types.Signature
	if c != nil {
		sig = c.Signature()
	} else {
		sig = callee.Signature
	}
	fv.bindResults(post, res, callee, con, sig)
	if callee != nil && len(callee.FreeVars) > 0 {
		post.oldVars = map[string]*Val{}
		nv := map[string]*Val{}
		for k, v := range post.vars {
			nv[k] = v
		}
		post.vars = nv
		for i, f := range callee.FreeVars {
			if i < len(binds) {
				post.oldVars[f.Name()] = env.vars[f.Name()]
				post.vars[f.Name()] = fv.loadPlace(fv.cur, fv.placeFromPointer(binds[i]))
			}
		}
	}
	preOK := ""
	if len(preAll) > 0 {
		preOK = fv.name("pre."+sanitize(key), "Bool", and(preAll...))
	}
	for _, e := range con.Ensures {
		t := post.tr(e.Expr)
		fv.reportSpecErrs(post, e)
		if preOK != "" {
			fv.assume(implies(preOK, t.T))
		} else {
			fv.assume(t.T)
		}
	}
	return res
}

func (fv *FuncVC) reportSpecErrs(env *Env, c *Clause) {
	for _, e := range env.errs {
		fv.unsupp("spec error at %s:%d: %s", shortFile(c.File), c.Line, e)
	}
	env.errs = nil
}

func shortFile(f string) string {
	if i := strings.LastIndex(f, "/"); i >= 0 {
		return f[i+1:]
	}
	return f
}

func (fv *FuncVC) propsFor(c *Clause) []string {
	if len(c.Props) > 0 {
		return c.Props
	}
	if fv.con != nil {
		return fv.con.Props
	}
	return nil
}

// ---------- modifies ----------

type modTarget struct {
	heap  string
	sort  string
	locs  []string // location terms; empty => whole heap
	whole bool
	mapRef string
}

// resolveModifies turns the contract's designators into heap targets, evaluated in env (pre-state).
func (fv *FuncVC) resolveModifies(con *Contract, env *Env) []modTarget {
	var out []modTarget
	add := func(h, s, loc string) {
		for i := range out {
			if out[i].heap == h {
				if loc == "" {
					out[i].whole = true
				} else {
					out[i].locs = append(out[i].locs, loc)
				}
				return
			}
		}
		t := modTarget{heap: h, sort: s}
		if loc == "" {
			t.whole = true
		} else {
			t.locs = []string{loc}
		}
		out = append(out, t)
	}
	g := fv.g
	for _, d := range con.Modifies {
		x, err := parseSpecExpr(d)
		if err != nil {
			fv.unsupp("bad modifies designator %q", d)
			continue
		}
		// "allghosts - g1 - g2": every ghost except the named ones
		excl := map[string]bool{}
		for {
			be, ok := x.(*ast.BinaryExpr)
			if !ok || be.Op != token.SUB {
				break
			}
			if id, ok := be.Y.(*ast.Ident); ok {
				excl[id.Name] = true
			}
			x = be.X
		}
		switch n := x.(type) {
		case *ast.Ident:
			switch n.Name {
			case "everything":
				add("*", "", "")
				continue
			case "once":
				add("ONCE", "(Array Int Bool)", "")
				continue
			case "allghosts":
				var gn []string
				for name := range g.spec.Ghosts {
					gn = append(gn, name)
				}
				sort.Strings(gn)
				for _, name := range gn {
					if excl[name] {
						continue
					}
					if t := g.resolveType(g.spec.Ghosts[name]); t != nil {
						add("GH$"+name, fv.sortOf(t), "")
					}
				}
				continue
			case "locks":
				// only the mutexes the contract talks about (held(...) in ensures) may change state
				found := false
				for _, e := range con.Ensures {
					ast.Inspect(e.Expr, func(nd ast.Node) bool {
						if ce, ok := nd.(*ast.CallExpr); ok {
							if id, ok := ce.Fun.(*ast.Ident); ok && id.Name == "held" && len(ce.Args) == 1 {
								add("LOCK", "(Array Int Int)", env.addrOf(ce.Args[0]))
								found = true
							}
						}
						return true
					})
				}
				// no held(...) in ensures: the function is lock-neutral (returns with the locks it was
				// entered with; checked by its own lock#balanced obligation) - LOCK is unchanged for callers
				_ = found
				continue
			}
			if gt, ok := g.spec.Ghosts[n.Name]; ok {
				t := g.resolveType(gt)
				add("GH$"+n.Name, fv.sortOf(t), "")
				continue
			}
			if gl, ok := g.pkg.Members[n.Name].(*ssa.Global); ok {
				name, s := fv.globalVar(gl)
				add(name, s, "")
				continue
			}
			fv.unsupp("modifies: unknown designator %q", d)
		case *ast.SelectorExpr:
			// Type.field (whole heap) or expr.field (location)
			if id, ok := n.X.(*ast.Ident); ok {
				if _, isVar := env.vars[id.Name]; !isVar {
					if t := g.resolveType(id.Name); t != nil {
						if st, ok := t.Underlying().(*types.Struct); ok {
							if idx, _ := findField(st, n.Sel.Name); idx >= 0 {
								for _, lf := range g.fieldLeaves(t, idx) {
									add(lf.name, lf.sort, "")
								}
								continue
							}
						}
					}
				}
			}
			base := env.tr(n.X)
			fv.reportSpecErrs(env, &Clause{File: con.File, Line: con.Line})
			if base.Typ == nil {
				continue
			}
			pt, ok := base.Typ.Underlying().(*types.Pointer)
			if !ok {
				fv.unsupp("modifies: %q base is not a pointer", d)
				continue
			}
			st, ok := pt.Elem().Underlying().(*types.Struct)
			if !ok {
				continue
			}
			idx, path := findField(st, n.Sel.Name)
			if idx < 0 {
				fv.unsupp("modifies: no field %q", d)
				continue
			}
			if len(path) > 1 {
				// promoted field of an embedded struct: the leaf heaps below the embedded field
				pl := fv.placeFromPointer(base)
				for _, i := range path {
					pl = fv.fieldPlace(pl, i)
				}
				if pl.Kind == PHeap && pl.Heap != "" {
					for _, lf := range g.leavesOf(pl.Heap, pl.Typ) {
						add(lf.name, lf.sort, base.T)
					}
					continue
				}
			}
			for _, lf := range g.fieldLeaves(pt.Elem(), path[0]) {
				add(lf.name, lf.sort, base.T)
			}
		case *ast.IndexExpr:
			// ghost[idx]: one entry of an indexed ghost (e.g. lmem[c.accessList]: the member set of one list)
			if id, ok := n.X.(*ast.Ident); ok {
				if gt, ok := g.spec.Ghosts[id.Name]; ok {
					t := g.resolveType(gt)
					idx := env.tr(n.Index)
					fv.reportSpecErrs(env, &Clause{File: con.File, Line: con.Line})
					if s := fv.sortOf(t); strings.HasPrefix(s, "(Array Int ") && idx.T != "" {
						add("GH$"+id.Name, s, idx.T)
						continue
					}
				}
			}
			fv.unsupp("modifies: bad designator %q", d)
		case *ast.StarExpr:
			base := env.tr(n.X)
			if base.Typ == nil {
				continue
			}
			et := deref(base.Typ)
			if _, ok := et.Underlying().(*types.Struct); ok {
				for _, lf := range g.structLeaves(et) {
					add(lf.name, lf.sort, base.T)
				}
			} else {
				hn, hs := g.cellHeap(et)
				add(hn, hs, base.T)
			}
		case *ast.CallExpr:
			fn, _ := n.Fun.(*ast.Ident)
			if fn == nil || len(n.Args) != 1 {
				fv.unsupp("modifies: bad designator %q", d)
				continue
			}
			switch fn.Name {
			case "callback":
				// callback(f): whatever the function value passed as f may write. Known at a call site that
				// passes a closure / function literal (its declared or inferred write set); otherwise everything
				// (A-CALLBACK does not apply to captured variables).
				var fnv *ssa.Function
				if v, ok := env.vars[exprText(n.Args[0])]; ok && v.Fn != nil {
					fnv, _ = v.Fn.(*ssa.Function)
				}
				if fnv == nil {
					add("*", "", "")
					continue
				}
				var mods map[string]bool
				if cc := g.spec.Contracts[funcKey(fnv)]; cc != nil && cc.HasMod {
					mods = g.contractModNames(cc, fnv, nil)
				} else {
					mods = g.modOf(fnv)
				}
				for _, name := range sortedKeys(mods) {
					if name == "*" || name == "?ext" {
						add("*", "", "")
						continue
					}
					if s := fv.heapSort[name]; s != "" && name != "LOCK" {
						add(name, s, "")
					}
				}
			case "elems":
				// elems(T) whole heap, or elems(sliceExpr) one array
				if t := g.resolveType(exprText(n.Args[0])); t != nil {
					if _, isVar := env.vars[exprText(n.Args[0])]; !isVar {
						hn, hs := g.elemHeap(t)
						add(hn, hs, "")
						continue
					}
				}
				v := env.tr(n.Args[0])
				if sl, ok := v.Typ.Underlying().(*types.Slice); ok {
					hn, hs := g.elemHeap(sl.Elem())
					add(hn, hs, "(s.arr "+v.T+")")
				}
			case "mapof":
				v := env.tr(n.Args[0])
				if mt, ok := v.Typ.Underlying().(*types.Map); ok {
					dn, vn, cn, ds, vs := fv.mapParts(mt)
					add(dn, ds, v.T)
					add(vn, vs, v.T)
					add(cn, "(Array Int Int)", v.T)
				}
			case "fields":
				// fields(T): all field heaps of struct type T ; fields(expr): all fields at location
				if t := g.resolveType(exprText(n.Args[0])); t != nil {
					if _, isVar := env.vars[exprText(n.Args[0])]; !isVar {
						for _, lf := range g.structLeaves(t) {
							add(lf.name, lf.sort, "")
						}
						continue
					}
				}
				v := env.tr(n.Args[0])
				et := deref(v.Typ)
				for _, lf := range g.structLeaves(et) {
					add(lf.name, lf.sort, v.T)
				}
			case "cells":
				if t := g.resolveType(exprText(n.Args[0])); t != nil {
					hn, hs := g.cellHeap(t)
					add(hn, hs, "")
				}
			default:
				fv.unsupp("modifies: bad designator %q", d)
			}
		default:
			fv.unsupp("modifies: bad designator %q", d)
		}
	}
	fv.reportSpecErrs(env, &Clause{File: con.File, Line: con.Line})
	return out
}

func (fv *FuncVC) applyModifies(con *Contract, callee *ssa.Function, env *Env, args []*Val) {
	// allocation counter may grow
	a := fv.heapGet("alloc", "Int")
	na := fv.fresh("alloc", "Int")
	fv.emit(fmt.Sprintf("(assert (>= %s %s))", na, a))
	fv.cur.heaps["alloc"] = na
	if con.Pure {
		fv.cur.heaps["alloc"] = a
		return
	}
	if !con.HasMod {
		// no explicit frame: fall back on inference
		if callee != nil && callee.Blocks != nil {
			fv.havocMod(fv.g.modOf(callee), args)
		} else {
			fv.havocExtTyped(args)
		}
		return
	}
	for _, t := range fv.resolveModifies(con, env) {
		if t.heap == "*" {
			fv.havocMod(map[string]bool{"*": true}, args)
			continue
		}
		h := fv.heapGet(t.heap, t.sort)
		if t.whole || !strings.HasPrefix(t.sort, "(Array Int ") {
			fv.heapHavoc(t.heap)
			fv.afterHeapChange(t.heap)
			continue
		}
		cur := h
		for _, loc := range t.locs {
			if t.heap == "LOCK" {
				fv.noteLockID(loc)
			}
			fr := fv.fresh("m."+t.heap, elemSortOfArray(t.sort))
			cur = "(store " + cur + " " + loc + " " + fr + ")"
		}
		fv.heapSet(t.heap, t.sort, cur)
		fv.afterHeapChange(t.heap)
	}
}

func elemSortOfArray(s string) string {
	// "(Array Int X)" -> X
	return strings.TrimSuffix(strings.TrimPrefix(s, "(Array Int "), ")")
}

func (fv *FuncVC) afterHeapChange(name string) {
	if strings.HasPrefix(name, "E$") {
		fv.syncArrSnaps(name)
	}
}

// havocMod havocs the heaps named in mod ("*" = all known heaps).
// privateCell: an address-taken scalar local whose address goes nowhere but into loads, stores and the argument
// lists of external functions with an assumed contract (binary.Read(r, order, &count) and the like, which write
// through the pointer during the call and do not keep it). No function of the package can hold its address, so a
// call into the package leaves the cell as it is, whatever that callee's write set says about cells of its type.
func (fv *FuncVC) privateCell(a *ssa.Alloc) bool {
	if v, ok := fv.privCells[a]; ok {
		return v
	}
	res := false
	defer func() { fv.privCells[a] = res }()
	if !a.Heap || a.Referrers() == nil {
		return false
	}
	if _, basic := a.Type().Underlying().(*types.Pointer).Elem().Underlying().(*types.Basic); !basic {
		return false
	}
	var onlyAssumedArgs func(v ssa.Value, depth int) bool
	onlyAssumedArgs = func(v ssa.Value, depth int) bool {
		if v.Referrers() == nil || depth > 2 {
			return false
		}
		for _, ref := range *v.Referrers() {
			switch r := ref.(type) {
			case *ssa.DebugRef:
			case *ssa.UnOp:
				if depth > 0 {
					return false
				}
			case *ssa.Store:
				if r.Val == v || depth > 0 {
					return false
				}
			case *ssa.MakeInterface:
				if !onlyAssumedArgs(r, depth+1) {
					return false
				}
			case ssa.CallInstruction:
				c := r.Common()
				if c.IsInvoke() {
					return false
				}
				if _, isGo := ref.(*ssa.Go); isGo {
					return false
				}
				assumed := false
				for _, k := range calleeKeys(c) {
					if con := fv.g.spec.Contracts[k]; con != nil && con.Assumed {
						assumed = true
					}
				}
				if !assumed {
					return false
				}
			default:
				return false
			}
		}
		return true
	}
	res = onlyAssumedArgs(a, 0)
	return res
}

func (fv *FuncVC) havocMod(mod map[string]bool, args []*Val) {
	if fv.fn != nil {
		type savedCell struct {
			p *Place
			v *Val
		}
		var priv []savedCell
		for _, b := range fv.fn.Blocks {
			for _, in := range b.Instrs {
				if a, ok := in.(*ssa.Alloc); ok && !fv.direct[a] && fv.privateCell(a) {
					if r, ok := fv.regs[a]; ok {
						p := fv.placeFromPointer(r)
						priv = append(priv, savedCell{p, fv.loadPlace(fv.cur, p)})
					}
				}
			}
		}
		defer func() {
			for _, k := range priv {
				fv.storePlace(k.p, k.v)
			}
		}()
	}
	if mod["*"] {
		// A-CAPTURE: the variables this closure captured are written only by the declaring function and the
		// closures that captured them; a callee that is not handed a closure leaves them as they are
		type savedCell struct {
			p *Place
			v *Val
		}
		var keep []savedCell
		closurePassed := false
		for _, a := range args {
			if a != nil && (a.Fn != nil || len(a.Bind) > 0) {
				closurePassed = true
			}
		}
		if fv.fn != nil && !closurePassed {
			for _, f := range fv.fn.FreeVars {
				if pv, ok := fv.params[f.Name()]; ok {
					p := fv.placeFromPointer(pv)
					keep = append(keep, savedCell{p, fv.loadPlace(fv.cur, p)})
				}
			}
		}
		defer func() {
			for _, k := range keep {
				fv.storePlace(k.p, k.v)
			}
		}()
		for _, name := range sortedKeys(fv.heapSort) {
			if name == "alloc" || name == "LOCK" || strings.HasPrefix(name, "VIS$") || strings.HasPrefix(name, "DF$") || strings.HasPrefix(name, "G$") && strings.Contains(name, ".") {
				continue
			}
			// ghost state changes only through contracts: a wildcard write set covers real memory; the
			// ghosts a callee can change are named explicitly in its (inferred or declared) write set
			if strings.HasPrefix(name, "GH$") && !mod[name] {
				continue
			}
			fv.heapHavoc(name)
			fv.afterHeapChange(name)
		}
		fv.sawStarHavoc = true
	} else {
		for _, name := range sortedKeys(mod) {
			if name == "?ext" {
				fv.havocExtTyped(args)
				continue
			}
			if fv.heapSort[name] == "" {
				continue // heap never observed in this function: nothing to forget
			}
			if name == "LOCK" {
				continue // A-LOCKNEUTRAL: an un-contracted callee returns with the locks it was called with
			}
			fv.heapHavoc(name)
			fv.afterHeapChange(name)
		}
	}
	a := fv.heapGet("alloc", "Int")
	na := fv.fresh("alloc", "Int")
	fv.emit(fmt.Sprintf("(assert (>= %s %s))", na, a))
	fv.cur.heaps["alloc"] = na
}

func (fv *FuncVC) havocExt(args []*Val, c *ssa.CallCommon) {
	fv.havocExtTyped(args)
}

// havocExtTyped: an external callee may write memory reachable from its arguments.
func (fv *FuncVC) havocExtTyped(args []*Val) {
	names := map[string]bool{}
	seen := map[string]bool{}
	for _, a := range args {
		if a.Typ != nil {
			fv.g.reachableHeaps(a.Typ, names, seen, 0, true)
		}
		if a.Place != nil {
			// address of a sub-location escapes into the callee: callee may write it
			hv := fv.havocVal("esc", a.Place.Typ)
			fv.storePlace(a.Place, hv)
		}
	}
	for _, n := range sortedKeys(names) {
		if n == "*" {
			fv.havocMod(map[string]bool{"*": true}, nil)
			return
		}
	}
	for _, n := range sortedKeys(names) {
		if fv.heapSort[n] != "" && n != "LOCK" {
			fv.heapHavoc(n)
			fv.afterHeapChange(n)
		}
	}
	a := fv.heapGet("alloc", "Int")
	na := fv.fresh("alloc", "Int")
	fv.emit(fmt.Sprintf("(assert (>= %s %s))", na, a))
	fv.cur.heaps["alloc"] = na
}

// ---------- call-site assertions and rules ----------

func matchKey(pattern string, keys []string) bool {
	for _, k := range keys {
		if pattern == k {
			return true
		}
		if strings.HasSuffix(pattern, "*") && strings.HasPrefix(k, strings.TrimSuffix(pattern, "*")) {
			return true
		}
	}
	return false
}

func (fv *FuncVC) callAsserts(keys []string, ord int, args []*Val, callee *ssa.Function, res *Val, when string, pos token.Pos) {
	if fv.con == nil {
		return
	}
	for _, ca := range fv.con.CallAsserts {
		if ca.When != when || !matchKey(ca.Callee, keys) || (ca.Ord != 0 && ca.Ord != ord) {
			continue
		}
		if when == "before" && !fv.localsInScope(ca.Clause.Expr) {
			continue // a local the clause names is declared after this call: not a site the clause is about (scope.go)
		}
		env := &Env{fv: fv, st: fv.cur, old: fv.entry, vars: map[string]*Val{}, locals: true, at: fv.curBlock, allocOld: fv.heapEntry("alloc", "Int")}
		for k, v := range fv.params {
			env.vars[k] = v
			env.vars["entry_"+k] = v // the value the function was called with (a parameter is an assignable local)
		}
		fv.bindFreeVars(env, fv.cur)
		for i, a := range args {
			env.vars[fmt.Sprintf("arg%d", i)] = a
		}
		if res != nil {
			if res.Tuple != nil {
				for i, r := range res.Tuple {
					env.vars[fmt.Sprintf("ret%d", i)] = r
				}
			} else if res.T != "" {
				env.vars["ret0"] = res
			}
		}
		t := env.tr(ca.Clause.Expr)
		if len(env.errs) > 0 {
			// a call site that precedes the declaration of a local the rule talks about is not a site the
			// rule is about (the variable does not exist there): skip it
			outOfScope := true
			for _, e := range env.errs {
				name := strings.TrimPrefix(e, "unknown identifier ")
				if name == e || len(fv.localsByName[name]) == 0 {
					outOfScope = false
				}
			}
			if outOfScope {
				continue
			}
		}
		fv.reportSpecErrs(env, ca.Clause)
		if fv.caHits == nil {
			fv.caHits = map[*CallAssert]int{}
		}
		fv.caHits[ca]++
		label := ca.Clause.Label
		if label == "" {
			label = "callassert"
		}
		fv.oblige("assert", fmt.Sprintf("%s@%s#%d", label, keys[0], ord), fv.propsFor(ca.Clause), t.T, ca.Clause.Src, fv.posStr(pos))
		// (clauses labelled kf-... are recorded known findings, expected to fail: never assumed)
		if !strings.HasPrefix(label, "kf-") {
			fv.assume(t.T)
		}
	}
}

// ---------- builtins ----------

func (fv *FuncVC) builtin(b *ssa.Builtin, c *ssa.CallCommon, args []*Val, resT types.Type, pos token.Pos) *Val {
	switch b.Name() {
	case "len":
		v := args[0]
		switch u := c.Args[0].Type().Underlying().(type) {
		case *types.Slice:
			return &Val{T: "(s.len " + v.T + ")", Typ: resT}
		case *types.Basic:
			return &Val{T: "(slen " + v.T + ")", Typ: resT}
		case *types.Map:
			_, _, cn, _, _ := fv.mapParts(u)
			h := fv.heapGet(cn, "(Array Int Int)")
			t := fv.name("mlen", "Int", fmt.Sprintf("(ite (= %s 0) 0 (select %s %s))", v.T, h, v.T))
			fv.emit(fmt.Sprintf("(assert (>= %s 0))", t))
			return &Val{T: t, Typ: resT}
		case *types.Array:
			return &Val{T: fmt.Sprintf("%d", u.Len()), Typ: resT}
		case *types.Pointer:
			if at, ok := u.Elem().Underlying().(*types.Array); ok {
				return &Val{T: fmt.Sprintf("%d", at.Len()), Typ: resT}
			}
		case *types.Chan:
			r := fv.havocVal("chlen", resT)
			fv.assume("(>= " + r.T + " 0)")
			return r
		}
	case "cap":
		v := args[0]
		switch u := c.Args[0].Type().Underlying().(type) {
		case *types.Slice:
			return &Val{T: "(s.cap " + v.T + ")", Typ: resT}
		case *types.Array:
			return &Val{T: fmt.Sprintf("%d", u.Len()), Typ: resT}
		case *types.Chan:
			r := fv.havocVal("chcap", resT)
			fv.assume("(>= " + r.T + " 0)")
			return r
		}
	case "append":
		return fv.builtinAppend(c, args, resT)
	case "copy":
		return fv.builtinCopy(c, args, resT)
	case "delete":
		mt := c.Args[0].Type().Underlying().(*types.Map)
		fv.mapDelete(args[0].T, args[1].T, mt)
		return &Val{Typ: resT}
	case "min", "max":
		op := "<="
		if b.Name() == "max" {
			op = ">="
		}
		cur := args[0].T
		for _, a := range args[1:] {
			cur = fmt.Sprintf("(ite (%s %s %s) %s %s)", op, cur, a.T, cur, a.T)
		}
		return &Val{T: cur, Typ: resT}
	case "print", "println":
		return &Val{Typ: resT}
	case "close":
		fv.note("channel close not modelled")
		return &Val{Typ: resT}
	case "ssa:deferstack":
		return &Val{T: "0", Typ: resT}
	case "recover":
		return fv.havocVal("recover", resT)
	case "ssa:wrapnilchk":
		fv.nonNil(args[0], pos)
		return args[0]
	case "clear":
		if mt, ok := c.Args[0].Type().Underlying().(*types.Map); ok {
			dn, _, cn, ds, _ := fv.mapParts(mt)
			ks := fv.sortOf(mt.Key())
			d := fv.heapGet(dn, ds)
			fv.heapSet(dn, ds, fmt.Sprintf("(store %s %s ((as const (Array %s Bool)) false))", d, args[0].T, ks))
			cc := fv.heapGet(cn, "(Array Int Int)")
			fv.heapSet(cn, "(Array Int Int)", "(store "+cc+" "+args[0].T+" 0)")
			return &Val{Typ: resT}
		}
	}
	fv.unsupp("builtin %s", b.Name())
	if tup, ok := resT.(*types.Tuple); ok && tup.Len() == 0 {
		return &Val{Typ: resT}
	}
	return fv.havocVal("b", resT)
}

func (fv *FuncVC) builtinAppend(c *ssa.CallCommon, args []*Val, resT types.Type) *Val {
	s, t := args[0], args[1]
	st := c.Args[0].Type().Underlying().(*types.Slice)
	et := st.Elem()
	hn, hs := fv.g.elemHeap(et)
	h := fv.heapGet(hn, hs)
	es := fv.sortOf(et)
	// length and source of appended elements
	var tlen string
	var telem func(j string) string
	if isString(c.Args[1].Type()) {
		tlen = "(slen " + t.T + ")"
		telem = func(j string) string { return "(sat " + t.T + " " + j + ")" }
	} else {
		tlen = "(s.len " + t.T + ")"
		telem = func(j string) string {
			return fmt.Sprintf("(select (select %s (s.arr %s)) (+ (s.off %s) %s))", h, t.T, t.T, j)
		}
	}
	newLen := fv.name("aplen", "Int", fmt.Sprintf("(+ (s.len %s) %s)", s.T, tlen))
	inplace := fv.name("apin", "Bool", fmt.Sprintf("(<= %s (s.cap %s))", newLen, s.T))
	fv.allocSizes = append(fv.allocSizes, allocSite{pos: "append", size: newLen, elem: et, pc: fv.pc, prefix: len(fv.lines)})
	ref := fv.allocRef()
	newCap := fv.fresh("apcap", "Int")
	fv.emit(fmt.Sprintf("(assert (and (>= %s %s) (<= %s 72057594037927936)))", newCap, newLen, newCap))
	// resulting backing array contents
	narr := fv.fresh("aparr", "(Array Int "+es+")")
	// in place: base offset off; fresh: offset 0
	resArr := fv.fresh("apref", "Int")
	fv.emit(fmt.Sprintf("(assert (= %s %s))", resArr, ite(inplace, "(s.arr "+s.T+")", ref)))
	resOff := fv.fresh("apoff", "Int")
	fv.emit(fmt.Sprintf("(assert (= %s %s))", resOff, ite(inplace, "(s.off "+s.T+")", "0")))
	oldArr := "(select " + h + " (s.arr " + s.T + "))"
	// elements (absolute index j into the resulting backing array): existing prefix preserved, then the
	// appended elements; when in place everything outside the appended range is unchanged
	fv.emit(fmt.Sprintf("(assert (forall ((j Int)) (! (=> (and (<= %s j) (< j (+ %s (s.len %s)))) (= (select %s j) (select %s (+ (s.off %s) (- j %s))))) :pattern ((select %s j)))))",
		resOff, resOff, s.T, narr, oldArr, s.T, resOff, narr))
	if c1, ok := constOfTerm(tlen); ok && c1 <= 4 {
		for j := int64(0); j < c1; j++ {
			fv.emit(fmt.Sprintf("(assert (= (select %s (+ %s (s.len %s) %d)) %s))", narr, resOff, s.T, j, telem(fmt.Sprintf("%d", j))))
		}
	} else {
		fv.emit(fmt.Sprintf("(assert (forall ((j Int)) (! (=> (and (<= (+ %s (s.len %s)) j) (< j (+ %s %s))) (= (select %s j) %s)) :pattern ((select %s j)))))",
			resOff, s.T, resOff, newLen, narr, telem(fmt.Sprintf("(- j (+ %s (s.len %s)))", resOff, s.T)), narr))
	}
	// in place: all indices outside [off+len, off+newLen) keep old contents
	fv.emit(fmt.Sprintf("(assert (=> %s (forall ((j Int)) (! (=> (or (< j (+ (s.off %s) (s.len %s))) (>= j (+ (s.off %s) %s))) (= (select %s j) (select %s j))) :pattern ((select %s j))))))",
		inplace, s.T, s.T, s.T, newLen, narr, oldArr, narr))
	fv.heapSet(hn, hs, "(store "+h+" "+resArr+" "+narr+")")
	fv.afterHeapChange(hn)
	res := fmt.Sprintf("(mk-slice %s %s %s %s)", resArr, resOff, newLen, ite(inplace, "(s.cap "+s.T+")", newCap))
	return &Val{T: fv.name("ap", "Slice", res), Typ: resT}
}

func constOfTerm(t string) (int64, bool) {
	v := &Val{T: t}
	if c, ok := constOf(v); ok && c.IsInt64() {
		return c.Int64(), true
	}
	// (s.len (mk-slice r 0 N N)) patterns are named; give up
	return 0, false
}

func (fv *FuncVC) builtinCopy(c *ssa.CallCommon, args []*Val, resT types.Type) *Val {
	dst, src := args[0], args[1]
	dt := c.Args[0].Type().Underlying().(*types.Slice)
	et := dt.Elem()
	hn, hs := fv.g.elemHeap(et)
	h := fv.heapGet(hn, hs)
	es := fv.sortOf(et)
	var slen string
	var selem func(j string) string
	if isString(c.Args[1].Type()) {
		slen = "(slen " + src.T + ")"
		selem = func(j string) string { return "(sat " + src.T + " " + j + ")" }
	} else {
		slen = "(s.len " + src.T + ")"
		selem = func(j string) string {
			return fmt.Sprintf("(select (select %s (s.arr %s)) (+ (s.off %s) %s))", h, src.T, src.T, j)
		}
	}
	n := fv.name("cpn", "Int", fmt.Sprintf("(ite (<= (s.len %s) %s) (s.len %s) %s)", dst.T, slen, dst.T, slen))
	narr := fv.fresh("cparr", "(Array Int "+es+")")
	oldArr := "(select " + h + " (s.arr " + dst.T + "))"
	fv.emit(fmt.Sprintf("(assert (forall ((j Int)) (! (= (select %s j) (ite (and (<= (s.off %s) j) (< j (+ (s.off %s) %s))) %s (select %s j))) :pattern ((select %s j)))))",
		narr, dst.T, dst.T, n, selem("(- j (s.off "+dst.T+"))"), oldArr, narr))
	// copy with n == 0 is a no-op even for nil dst
	fv.heapSet(hn, hs, ite("(= "+n+" 0)", h, "(store "+h+" (s.arr "+dst.T+") "+narr+")"))
	fv.afterHeapChange(hn)
	return &Val{T: n, Typ: resT}
}

// ---------- defers / go ----------

type deferInfo struct {
	instr *ssa.Defer
	args  []*Val
	fnVal *Val
	flag  string
	pcAt  string
}

func (fv *FuncVC) execDefer(d *ssa.Defer) {
	info := &deferInfo{instr: d, args: fv.argVals(&d.Call), pcAt: fv.pc}
	if !d.Call.IsInvoke() {
		if _, isB := d.Call.Value.(*ssa.Builtin); !isB {
			info.fnVal = fv.val(d.Call.Value)
		}
	}
	name := fmt.Sprintf("DF$%d", len(fv.deferInfos))
	fv.heapGet(name, "Bool")
	fv.cur.heaps[name] = "true"
	info.flag = name
	fv.deferInfos = append(fv.deferInfos, info)
}

func (fv *FuncVC) execRunDefers(r *ssa.RunDefers) {
	for i := len(fv.deferInfos) - 1; i >= 0; i-- {
		info := fv.deferInfos[i]
		flag := fv.heapGet(info.flag, "Bool")
		if flag == info.flag+"@0" {
			continue // never set on any path to here
		}
		if flag == "true" {
			fv.doCall(info.instr, &info.instr.Call, info.args, info.fnVal)
			continue
		}
		// conditional execution
		saved := fv.cur.clone()
		savedPC := fv.pc
		fv.pc = and(fv.pc, flag)
		fv.doCall(info.instr, &info.instr.Call, info.args, info.fnVal)
		fv.pc = savedPC
		fv.cur = fv.mergeStates([]*State{fv.cur, saved}, []string{flag, not(flag)})
	}
}

func (fv *FuncVC) execGo(g *ssa.Go) {
	fv.note("go statement: spawned call's effects applied at spawn point (sequential abstraction)")
	args := fv.argVals(&g.Call)
	// lock-token transfer for thread contracts is handled through the callee's contract (requires held(...))
	fv.inGo = true
	fv.doCall(g, &g.Call, args, nil)
	fv.inGo = false
}
