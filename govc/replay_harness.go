package main

func replayDispatch(g *Gen, ob *Obligation, dir, repo, verif string) (bool, string, string) {
	return false, "", ""
}
