package main

// replay_harness.go: turn the solver's counterexample for a refuted obligation into an in-package Go test that
// runs the REAL function on the model's inputs and evaluates the failed clause at run time.
//
// Scope (stated, not silently widened): functions whose parameters (and receiver) are integers, bools, strings,
// slices of integers / bytes / strings, or pointers to structs with such fields; failed obligations of kind
// "ensures" (the clause is re-evaluated dynamically) and "safety" (the run must panic). Clauses that mention ghost
// state, heaps of other objects, streams or uninterpreted specification functions are not replayable: the check
// then reports the violation with no-failing-input-found, as before.

import (
	"context"
	"fmt"
	"go/ast"
	"go/token"
	"go/types"
	"math/big"
	"os"
	"os/exec"
	"path/filepath"
	"strings"

	"golang.org/x/tools/go/ssa"
)

type rpParam struct {
	name string
	typ  types.Type
	term string // SMT term of the value at function entry
}

// sexp is a minimal s-expression for parsing (get-value ...) answers.
type sexp struct {
	atom string
	list []*sexp
}

func parseSexp(s string) []*sexp {
	var stack [][]*sexp
	cur := []*sexp{}
	i := 0
	for i < len(s) {
		c := s[i]
		switch {
		case c == '(':
			stack = append(stack, cur)
			cur = []*sexp{}
			i++
		case c == ')':
			node := &sexp{list: cur}
			if len(stack) == 0 {
				return cur
			}
			cur = stack[len(stack)-1]
			stack = stack[:len(stack)-1]
			cur = append(cur, node)
			i++
		case c == ' ' || c == '\n' || c == '\t' || c == '\r':
			i++
		case c == '|':
			j := strings.IndexByte(s[i+1:], '|')
			if j < 0 {
				j = len(s) - i - 1
			}
			cur = append(cur, &sexp{atom: s[i : i+j+2]})
			i += j + 2
		default:
			j := i
			for j < len(s) && !strings.ContainsRune("() \n\t\r", rune(s[j])) {
				j++
			}
			cur = append(cur, &sexp{atom: s[i:j]})
			i = j
		}
	}
	return cur
}

func (e *sexp) String() string {
	if e.list == nil {
		return e.atom
	}
	var parts []string
	for _, c := range e.list {
		parts = append(parts, c.String())
	}
	return "(" + strings.Join(parts, " ") + ")"
}

// intOf reads an SMT integer value: 5, (- 5), or a real like 5.0 / (/ 1.0 2.0) is rejected.
func intOf(e *sexp) (*big.Int, bool) {
	if e == nil {
		return nil, false
	}
	if e.list == nil {
		v, ok := new(big.Int).SetString(e.atom, 10)
		return v, ok
	}
	if len(e.list) == 2 && e.list[0].atom == "-" {
		v, ok := intOf(e.list[1])
		if !ok {
			return nil, false
		}
		return new(big.Int).Neg(v), true
	}
	return nil, false
}

// getValues asks the winning solver for the values of terms in the model of ob. Returns values in order.
func (g *Gen) getValues(ob *Obligation, terms []string) ([]*sexp, bool) {
	if len(terms) == 0 {
		return nil, true
	}
	out := g.modelFor(ob, terms)
	idx := strings.Index(out, "((")
	if !strings.HasPrefix(strings.TrimSpace(out), "sat") || idx < 0 {
		return nil, false
	}
	top := parseSexp(out[idx:])
	if len(top) == 0 || top[0].list == nil {
		return nil, false
	}
	var vals []*sexp
	for _, pair := range top[0].list {
		if pair.list == nil || len(pair.list) != 2 {
			return nil, false
		}
		vals = append(vals, pair.list[1])
	}
	if len(vals) != len(terms) {
		return nil, false
	}
	return vals, true
}

type rpGen struct {
	g      *Gen
	fv     *FuncVC
	ob     *Obligation
	lines  []string // Go statements constructing the inputs
	names  map[string]types.Type
	ptrs   map[string]*types.Struct // pointer-to-struct params
	why    string
	budget int
}

func (r *rpGen) fail(format string, a ...interface{}) bool {
	if r.why == "" {
		r.why = fmt.Sprintf(format, a...)
	}
	return false
}

func basicKind(t types.Type) (string, bool) {
	b, ok := t.Underlying().(*types.Basic)
	if !ok {
		return "", false
	}
	switch {
	case b.Info()&types.IsInteger != 0:
		return "int", true
	case b.Info()&types.IsBoolean != 0:
		return "bool", true
	case b.Info()&types.IsString != 0:
		return "string", true
	}
	return "", false
}

func (r *rpGen) typeName(t types.Type) string {
	return types.TypeString(t, func(p *types.Package) string {
		if p.Path() == "github.com/absfs/absnfs" {
			return ""
		}
		return p.Name()
	})
}

// valueExpr builds a Go expression for the model value of SMT term `term` of Go type t.
func (r *rpGen) valueExpr(term string, t types.Type) (string, bool) {
	if k, ok := basicKind(t); ok {
		switch k {
		case "int":
			vs, ok := r.g.getValues(r.ob, []string{term})
			if !ok {
				return "", r.fail("no model value for %s", term)
			}
			v, ok := intOf(vs[0])
			if !ok {
				return "", r.fail("non-integer model value %s", vs[0])
			}
			return fmt.Sprintf("%s(%s)", r.typeName(t), v.String()), true
		case "bool":
			vs, ok := r.g.getValues(r.ob, []string{term})
			if !ok {
				return "", r.fail("no model value for %s", term)
			}
			return vs[0].String(), true
		case "string":
			bs, ok := r.bytesOf(fmt.Sprintf("(slen %s)", term), func(i int) string { return fmt.Sprintf("(sat %s %d)", term, i) }, 300)
			if !ok {
				return "", false
			}
			return fmt.Sprintf("%s(%s)", r.typeName(t), goBytesLit(bs, true)), true
		}
	}
	if sl, ok := t.Underlying().(*types.Slice); ok {
		ek, ok := basicKind(sl.Elem())
		if !ok {
			return "", r.fail("slice of %s not supported", sl.Elem())
		}
		hn, hs := r.g.elemHeap(sl.Elem())
		if r.fv.heapSort[hn] == "" {
			_ = hs
		}
		lens, ok := r.g.getValues(r.ob, []string{fmt.Sprintf("(s.len %s)", term), fmt.Sprintf("(s.arr %s)", term)})
		if !ok {
			return "", r.fail("no model value for slice %s", term)
		}
		n, ok1 := intOf(lens[0])
		arr, ok2 := intOf(lens[1])
		if !ok1 || !ok2 || n.Sign() < 0 || n.Cmp(big.NewInt(512)) > 0 {
			return "", r.fail("slice length %s not replayable", lens[0])
		}
		if arr.Sign() == 0 && n.Sign() == 0 {
			return fmt.Sprintf("%s(nil)", r.typeName(t)), true
		}
		var elems []string
		if ek == "int" && r.fv.heapSort[hn] != "" && n.Sign() > 0 {
			// integer elements: one query for the whole slice
			var terms []string
			for i := 0; i < int(n.Int64()); i++ {
				terms = append(terms, fmt.Sprintf("(select (select %s@0 (s.arr %s)) (+ (s.off %s) %d))", hn, term, term, i))
			}
			evs, ok := r.g.getValues(r.ob, terms)
			if !ok {
				return "", r.fail("no model values for the elements of %s", term)
			}
			for _, e := range evs {
				v, ok := intOf(e)
				if !ok {
					return "", r.fail("element value %s", e)
				}
				elems = append(elems, v.String())
			}
			return fmt.Sprintf("%s{%s}", r.typeName(t), strings.Join(elems, ", ")), true
		}
		for i := 0; i < int(n.Int64()); i++ {
			et := fmt.Sprintf("(select (select %s@0 (s.arr %s)) (+ (s.off %s) %d))", hn, term, term, i)
			if r.fv.heapSort[hn] == "" {
				elems = append(elems, zeroLit(ek))
				continue
			}
			ev, ok := r.valueExpr(et, sl.Elem())
			if !ok {
				return "", false
			}
			elems = append(elems, ev)
		}
		return fmt.Sprintf("%s{%s}", r.typeName(t), strings.Join(elems, ", ")), true
	}
	if n, ok := t.(*types.Named); ok && n.Obj().Pkg() != nil && n.Obj().Pkg().Path() == "io" {
		switch n.Obj().Name() {
		case "Writer":
			return "io.Writer(&bytes.Buffer{})", true
		case "Reader":
			// the bytes the reader will still deliver, from the stream ghosts of the entry state
			if r.fv.heapSort["GH$rlen"] == "" || r.fv.heapSort["GH$rpos"] == "" {
				return "io.Reader(bytes.NewReader(nil))", true
			}
			id := "(i.val " + term + ")"
			lenTerm := fmt.Sprintf("(let ((n (- (select GH$rlen@0 %s) (select GH$rpos@0 %s)))) (ite (< n 0) 0 n))", id, id)
			if r.fv.heapSort["GH$rdata"] == "" {
				vs, ok := r.g.getValues(r.ob, []string{lenTerm})
				if !ok {
					return "", r.fail("no model value for the stream length")
				}
				n, ok := intOf(vs[0])
				if !ok || n.Cmp(big.NewInt(1<<20)) > 0 {
					return "", r.fail("stream length %s", vs[0])
				}
				return fmt.Sprintf("io.Reader(bytes.NewReader(make([]byte, %s)))", n.String()), true
			}
			bs, ok := r.bytesOf(lenTerm, func(i int) string {
				return fmt.Sprintf("(let ((b (select (select GH$rdata@0 %s) (+ (select GH$rpos@0 %s) %d)))) (ite (and (<= 0 b) (<= b 255)) b 0))", id, id, i)
			}, 4096)
			if !ok {
				return "", false
			}
			return "io.Reader(bytes.NewReader(" + goBytesLit(bs, false) + "))", true
		}
	}
	return "", r.fail("type %s not supported", t)
}

func zeroLit(k string) string {
	switch k {
	case "bool":
		return "false"
	case "string":
		return `""`
	}
	return "0"
}

func (r *rpGen) bytesOf(lenTerm string, at func(i int) string, max int) ([]byte, bool) {
	vs, ok := r.g.getValues(r.ob, []string{lenTerm})
	if !ok {
		return nil, r.fail("no model value for %s", lenTerm)
	}
	n, ok := intOf(vs[0])
	if !ok || n.Sign() < 0 || n.Cmp(big.NewInt(int64(max))) > 0 {
		return nil, r.fail("length %s not replayable", vs[0])
	}
	var terms []string
	for i := 0; i < int(n.Int64()); i++ {
		terms = append(terms, at(i))
	}
	ev, ok := r.g.getValues(r.ob, terms)
	if !ok {
		return nil, r.fail("no model values for the bytes of %s", lenTerm)
	}
	out := make([]byte, len(ev))
	for i, e := range ev {
		v, ok := intOf(e)
		if !ok || v.Sign() < 0 || v.Cmp(big.NewInt(255)) > 0 {
			return nil, r.fail("byte value %s", e)
		}
		out[i] = byte(v.Int64())
	}
	return out, true
}

func goBytesLit(b []byte, asString bool) string {
	var parts []string
	for _, c := range b {
		parts = append(parts, fmt.Sprint(c))
	}
	return "[]byte{" + strings.Join(parts, ", ") + "}"
}

// structExpr builds &T{...} for a pointer-to-struct parameter from the entry-state field heaps.
func (r *rpGen) structExpr(term string, pt *types.Pointer) (string, bool) {
	st, ok := pt.Elem().Underlying().(*types.Struct)
	if !ok {
		return "", r.fail("pointer to %s not supported", pt.Elem())
	}
	vs, ok := r.g.getValues(r.ob, []string{term})
	if !ok {
		return "", r.fail("no model value for %s", term)
	}
	ref, ok := intOf(vs[0])
	if !ok {
		return "", r.fail("reference value %s", vs[0])
	}
	if ref.Sign() == 0 {
		return "nil", true
	}
	var fields []string
	for i := 0; i < st.NumFields(); i++ {
		f := st.Field(i)
		if _, isB := basicKind(f.Type()); !isB {
			if _, isS := f.Type().Underlying().(*types.Slice); !isS {
				continue // other fields keep their zero value (the clause cannot mention them: see dyn)
			}
		}
		hn, _ := r.g.fieldHeap(pt.Elem(), i)
		if r.fv.heapSort[hn] == "" {
			continue // never read by the function: zero is as good as any value
		}
		ve, ok := r.valueExpr(fmt.Sprintf("(select %s@0 %s)", hn, term), f.Type())
		if !ok {
			return "", false
		}
		fields = append(fields, fmt.Sprintf("%s: %s", f.Name(), ve))
	}
	return fmt.Sprintf("&%s{%s}", r.typeName(pt.Elem()), strings.Join(fields, ", ")), true
}

// ---- clause -> dynamic Go

type dynEnv struct {
	r      *rpGen
	dynVar map[string]bool // bound variables holding dynamic values
	inOld  bool
	params map[string]types.Type
	nres   int
	depth  int
}

func (d *dynEnv) tr(e ast.Expr) (string, bool) {
	switch n := e.(type) {
	case *ast.ParenExpr:
		return d.tr(n.X)
	case *ast.BasicLit:
		switch n.Kind {
		case token.INT:
			return fmt.Sprintf("rInt(%q)", n.Value), true
		case token.STRING:
			return "rN(" + n.Value + ")", true
		case token.CHAR:
			return "rN(int(" + n.Value + "))", true
		}
		return "", d.r.fail("literal %s", n.Value)
	case *ast.Ident:
		switch n.Name {
		case "true", "false":
			return "rv(" + n.Name + ")", true
		case "nil":
			return "rv(nil)", true
		}
		if d.dynVar[n.Name] {
			return n.Name, true
		}
		if n.Name == "result" {
			return "rN(result0)", true
		}
		if strings.HasPrefix(n.Name, "result") {
			return "rN(" + n.Name + ")", true
		}
		if _, ok := d.params[n.Name]; ok {
			if d.inOld {
				return "rN(old_" + n.Name + ")", true
			}
			return "rN(" + n.Name + ")", true
		}
		if obj := d.r.g.tpkg.Scope().Lookup(n.Name); obj != nil {
			if _, isConst := obj.(*types.Const); isConst {
				return "rN(" + n.Name + ")", true // package-level constant: the in-package test names it directly
			}
		}
		return "", d.r.fail("identifier %s is not an input or result of the function", n.Name)
	case *ast.SelectorExpr:
		if id, ok := n.X.(*ast.Ident); ok {
			if pt, isParam := d.params[id.Name]; isParam {
				if p, ok := pt.Underlying().(*types.Pointer); ok {
					if st, ok := p.Elem().Underlying().(*types.Struct); ok {
						for i := 0; i < st.NumFields(); i++ {
							if st.Field(i).Name() == n.Sel.Name {
								base := id.Name
								if d.inOld {
									base = "old_" + id.Name
								}
								return fmt.Sprintf("rN(%s.%s)", base, n.Sel.Name), true
							}
						}
					}
				}
			}
			if id.Name == "os" || id.Name == "math" {
				return fmt.Sprintf("rN(%s.%s)", id.Name, n.Sel.Name), true
			}
		}
		return "", d.r.fail("selector %s", exprText(n))
	case *ast.UnaryExpr:
		x, ok := d.tr(n.X)
		if !ok {
			return "", false
		}
		switch n.Op {
		case token.NOT:
			return "rNot(" + x + ")", true
		case token.SUB:
			return "rBin(\"-\", rInt(\"0\"), " + x + ")", true
		}
		return "", d.r.fail("unary %s", n.Op)
	case *ast.BinaryExpr:
		a, ok := d.tr(n.X)
		if !ok {
			return "", false
		}
		b, ok := d.tr(n.Y)
		if !ok {
			return "", false
		}
		return fmt.Sprintf("rBin(%q, %s, %s)", n.Op.String(), a, b), true
	case *ast.IndexExpr:
		a, ok := d.tr(n.X)
		if !ok {
			return "", false
		}
		i, ok := d.tr(n.Index)
		if !ok {
			return "", false
		}
		return fmt.Sprintf("rIdx(%s, %s)", a, i), true
	case *ast.CallExpr:
		return d.call(n)
	}
	return "", d.r.fail("expression %T", e)
}

func (d *dynEnv) args(as []ast.Expr) ([]string, bool) {
	var out []string
	for _, a := range as {
		s, ok := d.tr(a)
		if !ok {
			return nil, false
		}
		out = append(out, s)
	}
	return out, true
}

func (d *dynEnv) call(n *ast.CallExpr) (string, bool) {
	id, ok := n.Fun.(*ast.Ident)
	if !ok {
		return "", d.r.fail("call of %s", exprText(n.Fun))
	}
	switch id.Name {
	case "old":
		if len(n.Args) != 1 {
			return "", d.r.fail("old arity")
		}
		saved := d.inOld
		d.inOld = true
		s, ok := d.tr(n.Args[0])
		d.inOld = saved
		return s, ok
	case "implies", "iff", "min", "max":
		as, ok := d.args(n.Args)
		if !ok || len(as) != 2 {
			return "", false
		}
		return fmt.Sprintf("r%s(%s, %s)", strings.Title(id.Name), as[0], as[1]), true
	case "ite":
		as, ok := d.args(n.Args)
		if !ok || len(as) != 3 {
			return "", false
		}
		return fmt.Sprintf("rIte(%s, %s, %s)", as[0], as[1], as[2]), true
	case "len":
		as, ok := d.args(n.Args)
		if !ok || len(as) != 1 {
			return "", false
		}
		return "rLen(" + as[0] + ")", true
	case "isnil":
		// isnil takes the raw Go value (an error or interface result)
		if a, ok := n.Args[0].(*ast.Ident); ok && (strings.HasPrefix(a.Name, "result") || a.Name == "err") {
			name := a.Name
			if name == "result" {
				name = "result0"
			}
			return "rv(rIsNil(" + name + "))", true
		}
		return "", d.r.fail("isnil of %s", exprText(n.Args[0]))
	case "forall", "exists":
		if len(n.Args) < 4 {
			return "", d.r.fail("typed quantifier not replayable")
		}
		v, ok := n.Args[0].(*ast.Ident)
		if !ok {
			return "", d.r.fail("quantifier variable")
		}
		lo, ok := d.tr(n.Args[1])
		if !ok {
			return "", false
		}
		hi, ok := d.tr(n.Args[2])
		if !ok {
			return "", false
		}
		saved := d.dynVar[v.Name]
		d.dynVar[v.Name] = true
		body, ok := d.tr(n.Args[3])
		d.dynVar[v.Name] = saved
		if !ok {
			return "", false
		}
		return fmt.Sprintf("r%s(%s, %s, func(%s rv) rv { return %s })", strings.Title(id.Name), lo, hi, v.Name, body), true
	case "uint8", "uint16", "uint32", "uint64", "int8", "int16", "int32", "int64", "int", "uint", "byte":
		as, ok := d.args(n.Args)
		if !ok || len(as) != 1 {
			return "", false
		}
		return fmt.Sprintf("rConv(%q, %s)", id.Name, as[0]), true
	case "lower":
		as, ok := d.args(n.Args)
		if !ok || len(as) != 1 {
			return "", false
		}
		return "rLower(" + as[0] + ")", true
	}
	// specification function with a body: inline as a closure over dynamic values
	if sf, ok := d.r.g.spec.SpecFuns[id.Name]; ok && sf.Body != nil && d.depth < 6 {
		as, ok := d.args(n.Args)
		if !ok || len(as) != len(sf.Params) {
			return "", false
		}
		inner := &dynEnv{r: d.r, dynVar: map[string]bool{}, params: map[string]types.Type{}, depth: d.depth + 1}
		var formals []string
		for _, p := range sf.Params {
			inner.dynVar[p.Name] = true
			formals = append(formals, p.Name+" rv")
		}
		body, ok := inner.tr(sf.Body)
		if !ok {
			return "", false
		}
		return fmt.Sprintf("func(%s) rv { return %s }(%s)", strings.Join(formals, ", "), body, strings.Join(as, ", ")), true
	}
	return "", d.r.fail("specification function %s is not executable", id.Name)
}

const replayPrelude = `
type rv = interface{}

func rInt(s string) rv { v, _ := new(big.Int).SetString(s, 0); return v }
func rN(x interface{}) rv {
	if x == nil {
		return nil
	}
	v := reflect.ValueOf(x)
	switch v.Kind() {
	case reflect.Bool:
		return v.Bool()
	case reflect.Int, reflect.Int8, reflect.Int16, reflect.Int32, reflect.Int64:
		return big.NewInt(v.Int())
	case reflect.Uint, reflect.Uint8, reflect.Uint16, reflect.Uint32, reflect.Uint64, reflect.Uintptr:
		return new(big.Int).SetUint64(v.Uint())
	case reflect.String:
		return v.String()
	case reflect.Slice:
		out := make([]rv, v.Len())
		for i := range out {
			out[i] = rN(v.Index(i).Interface())
		}
		return out
	case reflect.Ptr, reflect.Interface:
		if v.IsNil() {
			return nil
		}
	}
	return x
}
func rIsNil(x interface{}) bool {
	if x == nil {
		return true
	}
	v := reflect.ValueOf(x)
	switch v.Kind() {
	case reflect.Ptr, reflect.Interface, reflect.Slice, reflect.Map, reflect.Func, reflect.Chan:
		return v.IsNil()
	}
	return false
}
func rB(x rv) bool { b, ok := x.(bool); if !ok { panic(fmt.Sprintf("replay: not a bool: %v", x)) }; return b }
func rI(x rv) *big.Int { b, ok := x.(*big.Int); if !ok { panic(fmt.Sprintf("replay: not an integer: %v", x)) }; return b }
func rNot(a rv) rv { return !rB(a) }
func rImplies(a, b rv) rv { return !rB(a) || rB(b) }
func rIff(a, b rv) rv { return rB(a) == rB(b) }
func rIte(c, a, b rv) rv { if rB(c) { return a }; return b }
func rMin(a, b rv) rv { if rI(a).Cmp(rI(b)) <= 0 { return a }; return b }
func rMax(a, b rv) rv { if rI(a).Cmp(rI(b)) >= 0 { return a }; return b }
func rLower(a rv) rv { return strings.ToLower(a.(string)) }
func rLen(a rv) rv {
	switch x := a.(type) {
	case string:
		return big.NewInt(int64(len(x)))
	case []rv:
		return big.NewInt(int64(len(x)))
	case nil:
		return big.NewInt(0)
	}
	panic(fmt.Sprintf("replay: len of %T", a))
}
func rIdx(a, i rv) rv {
	k := int(rI(i).Int64())
	switch x := a.(type) {
	case string:
		return big.NewInt(int64(x[k]))
	case []rv:
		return x[k]
	}
	panic(fmt.Sprintf("replay: index of %T", a))
}
func rEq(a, b rv) bool {
	switch x := a.(type) {
	case *big.Int:
		y, ok := b.(*big.Int)
		return ok && x.Cmp(y) == 0
	case nil:
		return b == nil
	}
	return reflect.DeepEqual(a, b)
}
func rBin(op string, a, b rv) rv {
	switch op {
	case "&&":
		return rB(a) && rB(b)
	case "||":
		return rB(a) || rB(b)
	case "==":
		return rEq(a, b)
	case "!=":
		return !rEq(a, b)
	}
	x, y := rI(a), rI(b)
	switch op {
	case "<":
		return x.Cmp(y) < 0
	case "<=":
		return x.Cmp(y) <= 0
	case ">":
		return x.Cmp(y) > 0
	case ">=":
		return x.Cmp(y) >= 0
	case "+":
		return new(big.Int).Add(x, y)
	case "-":
		return new(big.Int).Sub(x, y)
	case "*":
		return new(big.Int).Mul(x, y)
	case "/":
		return new(big.Int).Quo(x, y)
	case "%":
		return new(big.Int).Rem(x, y)
	case "&":
		return new(big.Int).And(x, y)
	case "|":
		return new(big.Int).Or(x, y)
	case "&^":
		return new(big.Int).AndNot(x, y)
	}
	panic("replay: operator " + op)
}
func rConv(t string, a rv) rv {
	bits := map[string]uint{"uint8": 8, "byte": 8, "uint16": 16, "uint32": 32, "uint64": 64, "uint": 64, "int8": 8, "int16": 16, "int32": 32, "int64": 64, "int": 64}[t]
	m := new(big.Int).Lsh(big.NewInt(1), bits)
	v := new(big.Int).Mod(rI(a), m)
	if t[0] == 'i' && v.Cmp(new(big.Int).Rsh(m, 1)) >= 0 {
		v.Sub(v, m)
	}
	return v
}
func rForall(lo, hi rv, f func(rv) rv) rv {
	for i := new(big.Int).Set(rI(lo)); i.Cmp(rI(hi)) < 0; i = new(big.Int).Add(i, big.NewInt(1)) {
		if !rB(f(i)) {
			return false
		}
	}
	return true
}
func rExists(lo, hi rv, f func(rv) rv) rv {
	for i := new(big.Int).Set(rI(lo)); i.Cmp(rI(hi)) < 0; i = new(big.Int).Add(i, big.NewInt(1)) {
		if rB(f(i)) {
			return true
		}
	}
	return false
}
`

func replayDispatch(g *Gen, ob *Obligation, dir, repo, verif string) (bool, string, string) {
	fv := ob.fv
	if fv == nil || fv.fn == nil || (ob.Kind != "ensures" && ob.Kind != "safety") {
		return false, "", ""
	}
	fn := fv.fn
	if fn.Parent() != nil {
		return false, "", "" // closures: captured state is not reconstructed
	}
	isMethod := fn.Signature.Recv() != nil
	if isMethod {
		if _, ok := fn.Signature.Recv().Type().Underlying().(*types.Pointer); !ok {
			return false, "", "not replayable: value receiver"
		}
	}
	r := &rpGen{g: g, fv: fv, ob: ob, names: map[string]types.Type{}}
	var params []rpParam
	for _, p := range fn.Params {
		pv := fv.params[p.Name()]
		if pv == nil || pv.T == "" {
			return false, "", "not replayable: parameter " + p.Name() + " has no entry value"
		}
		params = append(params, rpParam{p.Name(), p.Type(), pv.T})
	}
	// prefer a small counterexample: ask again with every string / slice / stream input at most 48 long
	if small := g.smallModelQuery(ob, fv, params); small != nil {
		ob = small
		r.ob = small
	}
	var b strings.Builder
	testName := "TestVerifReplay_" + sanitizeGoName(ob.Name)
	b.WriteString("package absnfs\n\n// Replay of the solver's counterexample for obligation\n//   " + ob.Name + "\n// clause: " + strings.ReplaceAll(ob.Src, "\n", " ") + "\n// generated by govc; run with /verif/replay <this file>\n\n")
	b.WriteString("import (\n\t\"bytes\"\n\t\"fmt\"\n\t\"io\"\n\t\"math\"\n\t\"math/big\"\n\t\"os\"\n\t\"reflect\"\n\t\"strings\"\n\t\"testing\"\n)\n\nvar _ = fmt.Sprint\nvar _ = math.MaxInt8\nvar _ = os.ModeDir\nvar _ = strings.ToLower\nvar _ = bytes.NewReader\nvar _ io.Reader\n")
	b.WriteString(replayPrelude)
	b.WriteString("\nfunc " + testName + "(t *testing.T) {\n")
	ptypes := map[string]types.Type{}
	var argNames []string
	for _, p := range params {
		var ve string
		var ok bool
		if pt, isPtr := p.typ.Underlying().(*types.Pointer); isPtr {
			ve, ok = r.structExpr(p.term, pt)
		} else {
			ve, ok = r.valueExpr(p.term, p.typ)
		}
		if !ok {
			return false, "", "not replayable: " + r.why
		}
		fmt.Fprintf(&b, "\t%s := %s\n", p.name, ve)
		ptypes[p.name] = p.typ
		argNames = append(argNames, p.name)
		// entry-state copy for old(...)
		if _, isPtr := p.typ.Underlying().(*types.Pointer); isPtr {
			fmt.Fprintf(&b, "\told_%s := %s\n\tif %s != nil {\n\t\tc := *%s\n\t\told_%s = &c\n", p.name, p.name, p.name, p.name, p.name)
			st := p.typ.Underlying().(*types.Pointer).Elem().Underlying().(*types.Struct)
			for i := 0; i < st.NumFields(); i++ {
				if _, isS := st.Field(i).Type().Underlying().(*types.Slice); isS {
					fmt.Fprintf(&b, "\t\told_%s.%s = append(%s(nil), %s.%s...)\n", p.name, st.Field(i).Name(), r.typeName(st.Field(i).Type()), p.name, st.Field(i).Name())
				}
			}
			b.WriteString("\t}\n")
		} else if _, isS := p.typ.Underlying().(*types.Slice); isS {
			fmt.Fprintf(&b, "\told_%s := append(%s(nil), %s...)\n", p.name, r.typeName(p.typ), p.name)
		} else {
			fmt.Fprintf(&b, "\told_%s := %s\n", p.name, p.name)
		}
		fmt.Fprintf(&b, "\t_ = old_%s\n", p.name)
	}
	nres := fn.Signature.Results().Len()
	var resNames []string
	for i := 0; i < nres; i++ {
		resNames = append(resNames, fmt.Sprintf("result%d", i))
	}
	call := fmt.Sprintf("%s(%s)", fn.Name(), strings.Join(argNames, ", "))
	if isMethod {
		if len(argNames) == 0 {
			return false, "", "not replayable: receiver"
		}
		call = fmt.Sprintf("%s.%s(%s)", argNames[0], fn.Name(), strings.Join(argNames[1:], ", "))
	}
	inputs := "fmt.Sprint(" + strings.Join(quoteEach(argNames), ", ") + ")"
	if ob.Kind == "safety" {
		b.WriteString("\tdefer func() {\n\t\tif p := recover(); p != nil {\n\t\t\tt.Fatalf(\"REPLAY-FAIL: the real function panics on the solver's input: %v\", p)\n\t\t}\n\t}()\n")
		b.WriteString("\t" + call + "\n}\n")
	} else {
		clause, err := parseSpecExpr(ob.Src)
		if err != nil {
			return false, "", "not replayable: clause does not parse"
		}
		d := &dynEnv{r: r, dynVar: map[string]bool{}, params: ptypes, nres: nres}
		dyn, ok := d.tr(clause)
		if !ok {
			return false, "", "not replayable: " + r.why
		}
		if nres > 0 {
			fmt.Fprintf(&b, "\t%s := %s\n", strings.Join(resNames, ", "), call)
			for _, rn := range resNames {
				fmt.Fprintf(&b, "\t_ = %s\n", rn)
			}
		} else {
			b.WriteString("\t" + call + "\n")
		}
		fmt.Fprintf(&b, "\tif !rB(%s) {\n\t\tt.Fatalf(\"REPLAY-FAIL: on the solver's input the real function violates the clause; inputs (name, entry value ...): %%s\", %s)\n\t}\n}\n", dyn, inputs)
	}
	os.MkdirAll(dir, 0o755)
	path := filepath.Join(dir, fileSafe(ob.Name)+"_replay_test.go")
	if err := os.WriteFile(path, []byte(b.String()), 0o644); err != nil {
		return false, "", err.Error()
	}
	// run it against the repository under check, without writing into it
	ov := filepath.Join(dir, fileSafe(ob.Name)+".overlay.json")
	os.WriteFile(ov, []byte(fmt.Sprintf("{\"Replace\": {%q: %q}}", filepath.Join(repo, "zz_replay_verif_test.go"), path)), 0o644)
	defer os.Remove(ov)
	cmd := exec.Command("go", "test", "-overlay", ov, "-vet=off", "-count=1", "-timeout", "60s", "-run", "^"+testName+"$", ".")
	cmd.Dir = repo
	cmd.Env = append(os.Environ(), "GOFLAGS=-mod=mod", "GOPROXY=off", "GOSUMDB=off", "GOTOOLCHAIN=local")
	out, _ := cmd.CombinedOutput()
	log := string(out)
	if len(log) > 1500 {
		log = log[:1500]
	}
	return strings.Contains(string(out), "REPLAY-FAIL"), path, log
}

// smallModelQuery re-asks the refuted obligation with size bounds on the inputs; if it is still satisfiable the
// returned copy of the obligation points at the bounded query (its model is then a small counterexample).
func (g *Gen) smallModelQuery(ob *Obligation, fv *FuncVC, params []rpParam) *Obligation {
	var bounds []string
	sizeOf := func(term string, t types.Type) {
		if k, ok := basicKind(t); ok && k == "string" {
			bounds = append(bounds, fmt.Sprintf("(<= (slen %s) 48)", term))
		}
		if _, ok := t.Underlying().(*types.Slice); ok {
			bounds = append(bounds, fmt.Sprintf("(<= (s.len %s) 48)", term))
		}
		if n, ok := t.(*types.Named); ok && n.Obj().Pkg() != nil && n.Obj().Pkg().Path() == "io" && n.Obj().Name() == "Reader" {
			if fv.heapSort["GH$rlen"] != "" && fv.heapSort["GH$rpos"] != "" {
				bounds = append(bounds, fmt.Sprintf("(<= (- (select GH$rlen@0 (i.val %s)) (select GH$rpos@0 (i.val %s))) 96)", term, term))
			}
		}
	}
	for _, p := range params {
		if pt, ok := p.typ.Underlying().(*types.Pointer); ok {
			if st, ok := pt.Elem().Underlying().(*types.Struct); ok {
				for i := 0; i < st.NumFields(); i++ {
					hn, _ := g.fieldHeap(pt.Elem(), i)
					if fv.heapSort[hn] != "" {
						sizeOf(fmt.Sprintf("(select %s@0 %s)", hn, p.term), st.Field(i).Type())
					}
				}
			}
			continue
		}
		sizeOf(p.term, p.typ)
	}
	if len(bounds) == 0 || ob.File == "" {
		return nil
	}
	data, err := os.ReadFile(ob.File)
	if err != nil {
		return nil
	}
	q := string(data)
	k := strings.LastIndex(q, "(check-sat)")
	if k < 0 {
		return nil
	}
	var extra strings.Builder
	for _, b := range bounds {
		extra.WriteString("(assert " + b + ")\n")
	}
	f := strings.TrimSuffix(ob.File, ".smt2") + ".small.smt2"
	if os.WriteFile(f, []byte(q[:k]+extra.String()+"(check-sat)\n"), 0o644) != nil {
		return nil
	}
	res := runSolver(context.Background(), solvers[0], f, 20000, 0, false)
	if res.verdict != "sat" {
		os.Remove(f)
		return nil
	}
	cp := *ob
	cp.File = f
	return &cp
}

func quoteEach(names []string) []string {
	var out []string
	for _, n := range names {
		out = append(out, fmt.Sprintf("%q, fmt.Sprintf(\"%%#v\", old_%s)", " "+n+"=", n))
	}
	return out
}

func sanitizeGoName(s string) string {
	var b strings.Builder
	for _, r := range s {
		if r >= 'a' && r <= 'z' || r >= 'A' && r <= 'Z' || r >= '0' && r <= '9' {
			b.WriteRune(r)
		} else {
			b.WriteRune('_')
		}
	}
	return b.String()
}

var _ = ssa.Value(nil)
