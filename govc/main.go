package main

import (
	"encoding/json"
	"flag"
	"fmt"
	"go/types"
	"os"
	"path/filepath"
	"sort"
	"strings"
	"time"

	"golang.org/x/tools/go/packages"
	"golang.org/x/tools/go/ssa"
	"golang.org/x/tools/go/ssa/ssautil"
)

func loadGen(repo string, specGlobs []string) (*Gen, error) {
	cfg := &packages.Config{Mode: packages.LoadAllSyntax, Dir: repo, BuildFlags: []string{"-tags=verif"},
		Env: append(os.Environ(), "GOFLAGS=-mod=mod", "GOPROXY=off", "GOSUMDB=off", "GOTOOLCHAIN=local")}
	pkgs, err := packages.Load(cfg, ".")
	if err != nil {
		return nil, err
	}
	if len(pkgs) != 1 {
		return nil, fmt.Errorf("expected 1 package, got %d", len(pkgs))
	}
	if len(pkgs[0].Errors) > 0 {
		return nil, fmt.Errorf("package errors: %v", pkgs[0].Errors)
	}
	prog, spkgs := ssautil.AllPackages(pkgs, ssa.NaiveForm|ssa.GlobalDebug)
	var main *ssa.Package
	for _, p := range spkgs {
		if p != nil && p.Pkg.Path() == pkgs[0].PkgPath {
			main = p
		}
	}
	if main == nil {
		return nil, fmt.Errorf("ssa package not found")
	}
	main.Build()
	spec, err := loadSpecs(specGlobs)
	if err != nil {
		return nil, err
	}
	g := &Gen{prog: prog, pkg: main, tpkg: main.Pkg, fset: prog.Fset, spec: spec, sorts: newSorts(),
		strConsts: map[string]string{}, funcsByKey: map[string]*ssa.Function{}, modCache: map[*ssa.Function]map[string]bool{},
		modBusy: map[*ssa.Function]bool{}, fnIDs: map[string]int{}, extraDecl: map[string]string{},
		conModCache: map[*Contract]map[string]bool{}, ifaceModCache: map[string]map[string]bool{}}
	// index functions
	for fn := range ssautil.AllFunctions(prog) {
		if fn.Pkg == main || (fn.Pkg == nil && fn.Signature.Recv() != nil && recvPkg(fn.Signature.Recv().Type()) == main.Pkg) || (fn.Parent() != nil && rootFn(fn).Pkg == main) {
			if fn.Synthetic != "" && fn.Blocks == nil {
				continue
			}
			k := funcKey(fn)
			if old, ok := g.funcsByKey[k]; ok && old.Synthetic == "" {
				continue
			}
			g.funcsByKey[k] = fn
		}
	}
	g.bindFuncTypes()
	g.buildAxioms()
	return g, nil
}

func rootFn(f *ssa.Function) *ssa.Function {
	for f.Parent() != nil {
		f = f.Parent()
	}
	return f
}

func (g *Gen) buildAxioms() {
	scratch := g.newFuncVC(nil, nil)
	for i, a := range g.spec.Axioms {
		env := &Env{fv: scratch, st: scratch.cur, old: scratch.cur, vars: map[string]*Val{}, allocOld: "0"}
		t := env.tr(a.Expr)
		if len(env.errs) > 0 {
			fmt.Fprintf(os.Stderr, "axiom %s:%d: %v\n", a.File, a.Line, env.errs)
			g.specErrors = append(g.specErrors, fmt.Sprintf("axiom %s:%d: %v", a.File, a.Line, env.errs))
			continue
		}
		label := a.Label
		if label == "" {
			label = fmt.Sprintf("ax%d", i)
		}
		g.axiomLines = append(g.axiomLines, "(assert (! "+t.T+" :named ax!"+sanitize(label)+"))")
		g.axiomNames = append(g.axiomNames, label+": "+a.Src)
	}
	// declarations the axioms needed
	for _, l := range scratch.lines {
		if strings.HasPrefix(l, "(declare-") {
			g.axiomDecls = append(g.axiomDecls, l)
		}
	}
	if len(g.axiomDecls) > 0 {
		g.axiomLines = append(g.axiomDecls, g.axiomLines...)
	}
}

// lemma obligations: hyps => concl over universally quantified vars (no code)
func (g *Gen) lemmaObligations(prop string) []*Obligation {
	var out []*Obligation
	for _, lm := range g.spec.Lemmas {
		if prop != "" && !contains(lm.Props, prop) {
			continue
		}
		fv := g.newFuncVC(nil, nil)
		fv.key = "lemma." + lm.Name
		env := &Env{fv: fv, st: fv.cur, old: fv.cur, vars: map[string]*Val{}, allocOld: "0"}
		for _, v := range lm.Vars {
			t := g.resolveType(v.Type)
			if t == nil {
				g.specErrors = append(g.specErrors, fmt.Sprintf("lemma %s: unknown type %s", lm.Name, v.Type))
				continue
			}
			if isUntyped(t) {
				n := fv.fresh("v."+v.Name, "Int")
				env.vars[v.Name] = &Val{T: n, Typ: t}
				continue
			}
			env.vars[v.Name] = fv.havocVal("v."+v.Name, t)
		}
		for _, h := range lm.Hyps {
			t := env.tr(h.Expr)
			fv.emit("(assert " + t.T + ")")
		}
		out = append(out, &Obligation{Name: "lemma." + lm.Name + "#hyps-sat", Func: fv.key, Kind: "requires-sat", Expect: "sat", Prefix: len(fv.lines), Goal: "true", Reach: "true", fv: fv, Props: lm.Props})
		for i, c := range lm.Concl {
			t := env.tr(c.Expr)
			label := c.Label
			if label == "" {
				label = fmt.Sprintf("%d", i+1)
			}
			out = append(out, &Obligation{Name: "lemma." + lm.Name + "#" + label, Func: fv.key, Kind: "lemma", Label: label, Expect: "unsat",
				Prefix: len(fv.lines), Goal: t.T, Reach: "true", fv: fv, Props: lm.Props, Src: c.Src})
		}
		for _, e := range env.errs {
			g.specErrors = append(g.specErrors, fmt.Sprintf("lemma %s: %s", lm.Name, e))
		}
	}
	return out
}

func contains(xs []string, x string) bool {
	for _, y := range xs {
		if y == x {
			return true
		}
	}
	return false
}

func (c *Contract) mentions(prop string) bool {
	if contains(c.Props, prop) {
		return true
	}
	for _, cl := range c.Requires {
		if contains(cl.Props, prop) {
			return true
		}
	}
	for _, cl := range c.Ensures {
		if contains(cl.Props, prop) {
			return true
		}
	}
	for _, cs := range c.Loops {
		for _, cl := range cs {
			if contains(cl.Props, prop) {
				return true
			}
		}
	}
	for _, ca := range c.CallAsserts {
		if contains(ca.Clause.Props, prop) {
			return true
		}
	}
	for _, cs := range c.LoopEdges {
		for _, cl := range cs {
			if contains(cl.Props, prop) {
				return true
			}
		}
	}
	return false
}

// mentionsProp: the clause belongs to prop (its own tags, or the function's when it has none).
func (cl *Clause) mentionsProp(prop string, fnProps []string) bool {
	if len(cl.Props) > 0 {
		return contains(cl.Props, prop)
	}
	return contains(fnProps, prop)
}

type FuncReport struct {
	Func         string   `json:"func"`
	Obligations  int      `json:"obligations"`
	Discharged   int      `json:"discharged"`
	Notes        []string `json:"notes,omitempty"`
	Unsupported  []string `json:"unsupported,omitempty"`
	Uncontracted []string `json:"uncontracted_callees_havocked,omitempty"`
	External     []string `json:"external_callees_havocked,omitempty"`
	Assumed      []string `json:"assumed_contracts_used,omitempty"`
	SkippedPartial int    `json:"partial_function_unclaimed_obligations_skipped,omitempty"`
	GuardOnly bool `json:"guarded_accesses_only,omitempty"`
}

type OblReport struct {
	Name    string `json:"name"`
	Kind    string `json:"kind"`
	Expect  string `json:"expect"`
	Verdict string `json:"verdict"`
	Solver  string `json:"solver"`
	MS      int64  `json:"ms"`
	Pos     string `json:"pos,omitempty"`
	Clause  string `json:"clause,omitempty"`
}

func main() {
	if len(os.Args) < 2 {
		fmt.Fprintln(os.Stderr, "usage: govc check|list|dump ...")
		os.Exit(2)
	}
	cmd := os.Args[1]
	fs := flag.NewFlagSet(cmd, flag.ExitOnError)
	repo := fs.String("repo", "/repo", "repository")
	verif := fs.String("verif", "/verif", "verif dir")
	prop := fs.String("prop", "", "property id")
	fn := fs.String("func", "", "function key (dump)")
	tier := fs.String("tier", "quick", "quick|thorough")
	out := fs.String("out", "", "output dir for SMT files")
	seed := fs.Int("seed", 0, "solver seed")
	par := fs.Int("par", 12, "parallel obligations")
	timeout := fs.Int("timeout", 0, "per-obligation timeout ms")
	jsonOut := fs.String("json", "", "write results json here")
	verbose := fs.Bool("v", false, "verbose")
	evidence := fs.String("evidence", "", "evidence file to write")
	fs.Parse(os.Args[2:])
	start := time.Now()
	globs := []string{filepath.Join(*repo, "zz_contracts_*_verif.go"), filepath.Join(*verif, "specs", "*.spec")}
	g, err := loadGen(*repo, globs)
	if err != nil {
		fmt.Fprintln(os.Stderr, "TOOL-ERROR load:", err)
		os.Exit(2)
	}
	if *timeout == 0 {
		*timeout = 10000
		if *tier == "thorough" {
			*timeout = 60000
		}
	}
	if *out == "" {
		*out = filepath.Join(*verif, "out", *prop)
	}
	switch cmd {
	case "list":
		for _, k := range g.spec.Order {
			c := g.spec.Contracts[k]
			_, has := g.funcsByKey[k]
			fmt.Printf("%-50s props=%v assumed=%v inrepo=%v\n", k, c.Props, c.Assumed, has)
		}
	case "guardscan":
		g.guardScan()
	case "mod":
		f := g.funcsByKey[*fn]
		if f == nil {
			fmt.Fprintln(os.Stderr, "no such function", *fn)
			os.Exit(2)
		}
		fmt.Println(strings.Join(sortedKeys(g.modOf(f)), "\n"))
		for _, b := range f.Blocks {
			for _, in := range b.Instrs {
				hs := map[string]bool{}
				g.instrWrites(f, in, map[*ssa.Alloc]bool{}, hs, nil)
				if hs["*"] || *verbose && len(hs) > 0 {
					fmt.Printf("  %s: %s -> %v\n", g.fset.Position(in.Pos()), in.String(), sortedKeys(hs))
				}
			}
		}
	case "dump":
		f := g.funcsByKey[*fn]
		if f == nil {
			fmt.Fprintln(os.Stderr, "no such function", *fn)
			os.Exit(2)
		}
		fv := g.newFuncVC(f, g.spec.Contracts[*fn])
		fv.Generate()
		fmt.Print(g.header())
		for _, l := range fv.lines {
			fmt.Println(l)
		}
		for _, o := range fv.obls {
			fmt.Printf("; OBL %s expect=%s prefix=%d reach=%s\n;   goal=%s\n", o.Name, o.Expect, o.Prefix, o.Reach, o.Goal)
		}
		for _, b := range f.Blocks {
			for _, in := range b.Instrs {
				if c, ok := in.(ssa.CallInstruction); ok {
					fmt.Printf("; CALL %s keys=%v\n", fv.posStr(in.Pos()), calleeKeys(c.Common()))
				}
			}
		}
		fmt.Println("; uncontracted:", sortedKeys(fv.uncontracted), "ext:", sortedKeys(fv.extCalls))
		fmt.Println("; notes:", fv.notes)
		fmt.Println("; unsupported:", fv.unsupported)
	case "check":
		res := g.check(*prop, *tier, *out, *timeout, *seed, *par, *verbose)
		if len(res.ToolErrors) > 0 {
			for i, e := range res.ToolErrors {
				if i >= 4 {
					fmt.Printf("TOOL-ERROR ... and %d more\n", len(res.ToolErrors)-i)
					break
				}
				if len(e) > 400 {
					e = e[:400]
				}
				fmt.Println("TOOL-ERROR", e)
			}
			os.Exit(2)
		}
		code := g.report(res, *verif, *repo, *seed, *evidence, start)
		if *jsonOut != "" {
			data, _ := json.MarshalIndent(res, "", " ")
			os.WriteFile(*jsonOut, data, 0o644)
		}
		os.Exit(code)
	default:
		fmt.Fprintln(os.Stderr, "unknown command", cmd)
		os.Exit(2)
	}
}

type CheckResult struct {
	Prop         string        `json:"prop"`
	Tier         string        `json:"tier"`
	Functions    []*FuncReport `json:"functions"`
	Obligations  int           `json:"obligations"`
	Discharged   int           `json:"discharged"`
	VacuityTotal int           `json:"vacuity_total"`
	VacuityOK    int           `json:"vacuity_ok"`
	Failed       []*OblReport  `json:"failed"`
	All          []*OblReport  `json:"all"`
	ToolErrors   []string      `json:"tool_errors"`
	Assumed      []string      `json:"assumed"`
	AxiomsUsed   []string      `json:"axioms"`
	Undecided    []*OblReport  `json:"undecided_safety"`
	WallS        float64       `json:"wall_s"`
	SolverMS     int64         `json:"solver_ms"`
	BySolver     map[string]int `json:"by_solver"`
	OutDir       string        `json:"out_dir"`
	Bounded      []interface{} `json:"bounded,omitempty"`
	UnreachableReturns []string `json:"unreachable_returns,omitempty"`
	AnchorLost   []*OblReport `json:"anchor_lost,omitempty"`
	GuardUnchecked []string `json:"guarded_accessors_not_translated,omitempty"`
	GuardRules   []map[string]interface{} `json:"guarded_declarations,omitempty"`
	obls         []*Obligation
}

func (g *Gen) check(prop, tier, outDir string, timeoutMS, seed, par int, verbose bool) *CheckResult {
	res := &CheckResult{Prop: prop, Tier: tier, BySolver: map[string]int{}, OutDir: outDir}
	res.ToolErrors = append(res.ToolErrors, g.specErrors...)
	var obls []*Obligation
	assumed := map[string]bool{}
	var keys []string
	for _, k := range g.spec.Order {
		c := g.spec.Contracts[k]
		if c.Assumed || !c.mentions(prop) {
			continue
		}
		keys = append(keys, k)
	}
	// the guarded_by pass: every function of the package that touches a guarded field (or calls a helper that relies
	// on its caller's lock) is in the check, under its own contract if it has one, otherwise under an empty one
	guardOnly := map[string]bool{}
	synth := map[string]*Contract{}
	for _, r := range g.spec.Guarded {
		if !contains(r.Props, prop) {
			continue
		}
		m := map[string]interface{}{"label": r.Label, "type": r.Type, "mutex": r.Mu, "fields": r.Fields, "declared_at": fmt.Sprintf("%s:%d", r.File, r.Line)}
		if len(r.Except) > 0 {
			m["exempt_functions"] = sortedKeys(r.Except)
		}
		if len(r.Deep) > 0 {
			m["pointee_guarded_too"] = sortedKeys(r.Deep)
		}
		res.GuardRules = append(res.GuardRules, m)
		if why := g.guardRuleUnresolved(r); why != "" {
			res.AnchorLost = append(res.AnchorLost, &OblReport{Name: "guarded:" + r.Label + "#anchor#rule-unresolved", Kind: "anchor", Expect: "unsat", Verdict: "not-generated",
				Clause: fmt.Sprintf("guarded declaration %s (%s:%d) no longer resolves: %s", r.Label, r.File, r.Line, why)})
		}
	}
	for _, k := range g.guardedAccessors(prop) {
		if contains(keys, k) {
			continue
		}
		c := g.spec.Contracts[k]
		if c == nil || c.FuncType != "" {
			synth[k] = &Contract{Func: k, Partial: true, Abstract: true, NoCanary: true, Loops: map[int][]*Clause{}}
		}
		guardOnly[k] = true
		keys = append(keys, k)
	}
	sort.Strings(keys)
	for _, tc := range g.lostFuncTypes {
		if tc.mentions(prop) {
			res.AnchorLost = append(res.AnchorLost, &OblReport{Name: "type:" + tc.FuncType + "#anchor#type-missing", Kind: "anchor", Expect: "unsat", Verdict: "not-generated",
				Clause: "function type " + tc.FuncType + " carries a contract for this property but no longer exists"})
		}
	}
	for i, u := range g.unboundFuncType {
		res.AnchorLost = append(res.AnchorLost, &OblReport{Name: fmt.Sprintf("functype#anchor#unbound#%d", i+1), Kind: "anchor", Expect: "unsat", Verdict: "not-generated", Clause: u})
	}
	for _, k := range keys {
		c := g.spec.Contracts[k]
		if synth[k] != nil {
			c = synth[k]
		}
		if c.FuncType != "" {
			n := len(g.funcTypeImpl[k])
			if n == 0 && g.tpkg.Scope().Lookup(c.FuncType) != nil {
				res.AnchorLost = append(res.AnchorLost, &OblReport{Name: k + "#anchor#no-implementers", Kind: "anchor", Expect: "unsat", Verdict: "not-generated",
					Clause: "no function is converted to " + c.FuncType + " any more: the dispatch the type contract was written for is gone"})
			}
			continue
		}
		f := g.funcsByKey[k]
		if f == nil || f.Blocks == nil {
			// the function under contract is gone: its obligations can no longer be generated, so the
			// property is no longer established on this tree
			res.AnchorLost = append(res.AnchorLost, &OblReport{Name: k + "#anchor#function-missing", Kind: "anchor", Expect: "unsat", Verdict: "not-generated",
				Clause: "function " + k + " carries contract obligations for this property but no longer exists in the package"})
			continue
		}
		fv := g.newFuncVC(f, c)
		if crashed := func() (msg string) {
			defer func() {
				if r := recover(); r != nil {
					msg = fmt.Sprint(r)
				}
			}()
			fv.Generate()
			return ""
		}(); crashed != "" && guardOnly[k] {
			res.GuardUnchecked = append(res.GuardUnchecked, k+": "+crashed)
			continue
		} else if crashed != "" {
			// the generator cannot translate the function as it now stands (a construct outside the subset that
			// it does not even recognise): its obligations cannot be generated, so the property is not established
			res.AnchorLost = append(res.AnchorLost, &OblReport{Name: k + "#anchor#not-translatable", Kind: "anchor", Expect: "unsat", Verdict: "not-generated",
				Clause: "function " + k + " carries contract obligations for this property but could not be translated: " + crashed})
			continue
		}
		if guardOnly[k] {
			// in the check for its accesses to guarded state only: what its contract says is another property's business
			fr := &FuncReport{Func: k, Notes: fv.notes, Unsupported: fv.unsupported, GuardOnly: true}
			for _, o := range fv.obls {
				if (o.Kind == "guarded" || o.Kind == "guard-reach") && contains(o.Props, prop) {
					obls = append(obls, o)
				}
			}
			res.Functions = append(res.Functions, fr)
			continue
		}
		// missing loop invariants / lost anchors
		for ord := range c.Loops {
			found := false
			for _, o := range fv.loopOrd {
				if o == ord {
					found = true
				}
			}
			if !found {
				res.AnchorLost = append(res.AnchorLost, &OblReport{Name: fmt.Sprintf("%s#anchor#loop%d-missing", k, ord), Kind: "anchor", Expect: "unsat", Verdict: "not-generated",
					Clause: fmt.Sprintf("the contract of %s has invariants for loop %d, which no longer exists: the inductive argument cannot be replayed", k, ord)})
			}
		}
		for ord, ecs := range c.LoopEdges {
			for _, ec := range ecs {
				if fv.edgeHits[ec] == 0 && ec.mentionsProp(prop, c.Props) {
					res.AnchorLost = append(res.AnchorLost, &OblReport{Name: fmt.Sprintf("%s#anchor#loop%d-backedge-%s-missing", k, ord, ec.Label), Kind: "anchor", Expect: "unsat", Verdict: "not-generated",
						Clause: fmt.Sprintf("the contract of %s has a back-edge clause for loop %d that no edge of the current code matches", k, ord)})
				}
			}
		}
		for _, ca := range c.CallAsserts {
			if fv.caHits[ca] == 0 && ca.Clause.mentionsProp(prop, c.Props) && !isFalseLit(ca.Clause.Expr) {
				// (a clause that says 'false' forbids the call: no matching call site is what it asks for)
				// the call the clause is about is gone (or no longer in the scope of the locals it names): what it
				// pinned down is no longer established
				res.AnchorLost = append(res.AnchorLost, &OblReport{Name: fmt.Sprintf("%s#anchor#callassert-%s-unmatched", k, ca.Clause.Label), Kind: "anchor", Expect: "unsat", Verdict: "not-generated",
					Clause: fmt.Sprintf("the contract of %s has a call-site clause for %s that no call in the current code matches: %s", k, ca.Callee, ca.Clause.Src)})
			}
		}
		fr := &FuncReport{Func: k, Notes: fv.notes, Unsupported: fv.unsupported}
		for _, u := range fv.unsupported {
			if strings.HasPrefix(u, "spec error") {
				// a contract clause no longer resolves against the code (identifier, field or captured
				// variable gone): the obligation cannot be generated, so the property is not established
				res.AnchorLost = append(res.AnchorLost, &OblReport{Name: fmt.Sprintf("%s#anchor#contract-unresolved#%d", k, len(res.AnchorLost)+1), Kind: "anchor", Expect: "unsat", Verdict: "not-generated",
					Clause: "contract of " + k + " does not resolve against the current code: " + u})
			}
		}
		fr.Uncontracted = sortedKeys(fv.uncontracted)
		fr.External = sortedKeys(fv.extCalls)
		fr.Assumed = sortedKeys(fv.assumedUsed)
		for a := range fv.assumedUsed {
			assumed[a] = true
		}
		specBroken := false
		for _, u := range fv.unsupported {
			if strings.HasPrefix(u, "spec error") {
				specBroken = true
			}
		}
		for _, o := range fv.obls {
			if !contains(o.Props, prop) || specBroken {
				continue // a function whose contract no longer resolves yields no checkable obligations
			}
			if c.SafetyOnly[prop] && len(o.Props) > 0 && len(c.Props) > 0 && &o.Props[0] == &c.Props[0] {
				// the obligation inherits the function's property list, and the function is in this check for its
				// safety obligations only
				switch o.Kind {
				case "safety", "alloc-bound", "call-pre", "lock", "canary", "requires-sat":
				default:
					continue
				}
			}
			if c.Partial && tier != "thorough" && (o.Kind == "safety" || o.Kind == "lock" || o.Kind == "call-pre" || o.Kind == "alloc-bound") {
				// not claimed for a partial function (decided where possible in the thorough tier only)
				fr.SkippedPartial++
				continue
			}
			obls = append(obls, o)
		}
		res.Functions = append(res.Functions, fr)
	}
	lem := g.lemmaObligations(prop)
	obls = append(obls, lem...)
	obls = append(obls, g.writersObligations(prop)...)
	obls = append(obls, g.tableObligations(prop)...)
	if len(res.ToolErrors) > 0 {
		return res
	}
	os.RemoveAll(outDir)
	tGen := time.Now()
	g.solveAll(obls, outDir, timeoutMS, seed, par)
	if os.Getenv("VERIF_TIMING") != "" {
		fmt.Printf("timing: %d obligations generated, solving took %.1fs\n", len(obls), time.Since(tGen).Seconds())
	}
	res.obls = obls
	canaryTotal := map[string]int{}
	canaryDead := map[string][]*OblReport{}
	frByName := map[string]*FuncReport{}
	for _, fr := range res.Functions {
		frByName[fr.Func] = fr
	}
	for _, o := range obls {
		rep := &OblReport{Name: o.Name, Kind: o.Kind, Expect: o.Expect, Verdict: o.Verdict, Solver: o.Solver, MS: o.MS, Pos: o.Pos, Clause: o.Src}
		res.All = append(res.All, rep)
		res.SolverMS += o.MS
		fr := frByName[o.Func]
		if o.Verdict == "error" {
			res.ToolErrors = append(res.ToolErrors, fmt.Sprintf("solver error on %s: %s (%s)", o.Name, o.Output, o.File))
			continue
		}
		if o.Expect == "sat" && o.Kind == "canary" {
			res.VacuityTotal++
			canaryTotal[o.Func]++
			if o.Verdict == "unsat" {
				canaryDead[o.Func] = append(canaryDead[o.Func], rep)
			} else {
				res.VacuityOK++
			}
			continue
		}
		if o.Expect == "sat" {
			res.VacuityTotal++
			if o.Verdict == "unsat" {
				rep.Verdict = "vacuous(unsat)"
				res.Failed = append(res.Failed, rep)
			} else {
				res.VacuityOK++
			}
			continue
		}
		partialFn := false
		if pc := g.spec.Contracts[o.Func]; pc != nil && pc.Partial {
			partialFn = true
		}
		// in a 'partial' function only the stated clauses (ensures, asserts, frame) are claimed: safety,
		// callee preconditions, lock discipline and automatic loop frames are decided where possible
		if (o.Kind == "safety" && o.Abstract) || (partialFn && (o.Kind == "call-pre" || o.Kind == "lock" || o.Kind == "safety" || o.Kind == "alloc-bound")) {
			// abstracted safety: counted only when discharged; otherwise undecided (no alarm)
			if o.Verdict == "unsat" {
				res.Obligations++
				res.Discharged++
				res.BySolver[o.Solver]++
				if fr != nil {
					fr.Obligations++
					fr.Discharged++
				}
			} else {
				res.Undecided = append(res.Undecided, rep)
			}
			continue
		}
		res.Obligations++
		if fr != nil {
			fr.Obligations++
		}
		if o.Verdict == "unsat" {
			res.Discharged++
			res.BySolver[o.Solver]++
			if fr != nil {
				fr.Discharged++
			}
		} else {
			res.Failed = append(res.Failed, rep)
		}
		if verbose {
			fmt.Printf("  %-8s %-7s %6dms %s\n", o.Verdict, o.Solver, o.MS, o.Name)
		}
	}
	// exit canaries: a function all of whose returns are unreachable under its contracts is vacuous;
	// individual unreachable returns (dead code) are tolerated and listed
	for fn, dead := range canaryDead {
		if len(dead) == canaryTotal[fn] {
			for _, d := range dead {
				d.Verdict = "vacuous(unsat)"
				res.Failed = append(res.Failed, d)
			}
		} else {
			for _, d := range dead {
				res.UnreachableReturns = append(res.UnreachableReturns, d.Name)
			}
		}
	}
	for _, a := range res.AnchorLost {
		res.Obligations++
		res.Failed = append(res.Failed, a)
		res.All = append(res.All, a)
	}
	res.Assumed = sortedKeys(assumed)
	res.AxiomsUsed = g.axiomNames
	for _, f := range res.Failed {
		fmt.Printf("FAILED %s verdict=%s solver=%s pos=%s clause=%q\n", f.Name, f.Verdict, f.Solver, f.Pos, f.Clause)
	}
	return res
}

var _ = types.Typ
