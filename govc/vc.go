package main

// vc.go: per-function verification-condition generation over go/ssa (naive form).

import (
	"fmt"
	"go/token"
	"go/types"
	"sort"
	"strings"

	"golang.org/x/tools/go/ssa"
)

type Gen struct {
	prog      *ssa.Program
	pkg       *ssa.Package
	tpkg      *types.Package
	fset      *token.FileSet
	spec      *Spec
	sorts     *Sorts
	strConsts map[string]string
	strOrder  []string
	funcsByKey map[string]*ssa.Function
	modCache  map[*ssa.Function]map[string]bool
	modBusy   map[*ssa.Function]bool
	fnIDs     map[string]int
	extraDecl map[string]string // global uninterpreted decls (name -> decl line)
	extraOrder []string
	timeoutMS int
	modCycle  bool
	conModCache map[*Contract]map[string]bool
	firstPassOnly bool // solveAll pass A: single-solver stage only (see solve.go)
	ifaceModCache map[string]map[string]bool
	mayAcq     map[*ssa.Function]map[string]bool // mutex classes each function may acquire (guarded.go)
	namedTypes []types.Type
	interference bool
	axiomLines []string
	axiomNames []string
	axiomDecls []string
	specErrors []string
	funcTypeImpl    map[string][]*ssa.Function // "type:T" -> functions converted to T
	lostFuncTypes   []*Contract
	unboundFuncType []string
}

type Obligation struct {
	Name    string
	Func    string
	Kind    string // ensures, requires-sat, inv-init, inv-preserve, call-pre, assert, frame, safety, canary, lemma, lock
	Label   string
	Props   []string
	Expect  string // "unsat" (to prove) or "sat" (vacuity guards)
	Prefix  int    // number of lines of FuncVC.lines included
	Goal    string // for Expect=unsat: formula whose negation is asserted with Reach
	Reach   string
	Pos     string
	Src     string
	fv      *FuncVC
	lines   []string
	Abstract bool
	// results
	Verdict string
	Solver  string
	MS      int64
	Model   string
	Output  string
	File    string
}

type State struct {
	cells map[*ssa.Alloc]string
	heaps map[string]string
}

func (s *State) clone() *State {
	n := &State{cells: make(map[*ssa.Alloc]string, len(s.cells)), heaps: make(map[string]string, len(s.heaps))}
	for k, v := range s.cells {
		n.cells[k] = v
	}
	for k, v := range s.heaps {
		n.heaps[k] = v
	}
	return n
}

// Place designates a memory location.
type Place struct {
	Kind   int
	Local  *ssa.Alloc   // PLocal
	Global *ssa.Global  // PGlobal
	Heap   string       // PHeap: heap name (Array Int sort)
	Ref    string       // PHeap: index term ; PElem: array ref
	Idx    string       // PElem: absolute index term
	Root   types.Type   // type of the value stored at root
	Path   []pathStep   // nested selection inside root value
	Typ    types.Type   // type of the designated location
}

type pathStep struct {
	field int    // >=0: struct field
	idx   string // array index term when field<0
	typ   types.Type // type of container at this step
}

const (
	PLocal = iota
	PGlobal
	PHeap
	PElem
)

type deferRec struct {
	instr *ssa.Defer
	flag  string // heap-like bool var name in state.heaps
}

type FuncVC struct {
	g        *Gen
	fn       *ssa.Function
	key      string
	con      *Contract
	lines    []string
	declared map[string]bool
	obls     []*Obligation
	regs     map[ssa.Value]*Val
	direct   map[*ssa.Alloc]bool
	heapSort map[string]string
	entry    *State
	nfresh   int
	reach    map[*ssa.BasicBlock]string
	outState map[*ssa.BasicBlock]*State
	edgeCond map[[2]int]string
	backEdge map[[2]int]bool
	loopOrd  map[*ssa.BasicBlock]int
	loopBody map[*ssa.BasicBlock]map[*ssa.BasicBlock]bool
	params   map[string]*Val
	paramList []*Val
	results  []*Val // at current return
	curBlock *ssa.BasicBlock
	cur      *State
	pc       string
	notes    []string
	unsupported []string
	safetyN  map[string]int
	callOrd  map[string]int
	defers   []*deferRec
	extCalls map[string]bool
	uncontracted map[string]bool
	assumedUsed map[string]bool
	mapIters map[*ssa.Range]*mapIter
	localsByName map[string][]*ssa.Alloc
	sweepOnly bool
	ghostLocals map[string]string
	arrSnaps []*arrSnap
	allocSizes []allocSite
	deferInfos []*deferInfo
	sawStarHavoc bool
	inGo bool
	lockOps int
	strEqDone map[string]bool
	frameT   map[string]modTarget
	privCells map[*ssa.Alloc]bool // memo of privateCell (calls.go)
	edgeHits map[*Clause]int // back-edge clauses: number of edges each was generated for
	nCanary  int             // returns seen so far (exit canaries are sampled, driver.go)
	guardN   map[string]int  // guarded accesses seen so far, per field (guarded.go)
	lockClass map[string]string // lock id -> mutex class (struct type + field), for the no-relock obligations
	relockN  int
	curIn    ssa.Instruction // instruction being executed (scope of call-site clauses, atlock.go)
	caHits   map[*CallAssert]int // call-site clauses: number of call sites each was generated for
	acquired map[string]int  // lock id -> acquisitions seen so far (reacquire rules, locks.go)
	frameAll bool
	allocBoundTerm string
	cardDone map[string]bool
	lockIDs  []string
}

type mapIter struct {
	m       *Val
	visited string // state heap name of visited set (Array K Bool)
	ksort   string
}

func (fv *FuncVC) fresh(prefix, sort string) string {
	fv.nfresh++
	name := fmt.Sprintf("%s!%d", sanitize(prefix), fv.nfresh)
	fv.emit(fmt.Sprintf("(declare-const %s %s)", name, sort))
	return name
}

func (fv *FuncVC) emit(line string) { fv.lines = append(fv.lines, line) }

func (fv *FuncVC) assume(f string) {
	if f == "true" {
		return
	}
	fv.emit("(assert " + implies(fv.pc, f) + ")")
}

func (fv *FuncVC) assumeGlobal(f string) {
	if f == "true" {
		return
	}
	fv.emit("(assert " + f + ")")
}

// name binds a term to a fresh constant (keeps VCs linear in size).
func (fv *FuncVC) name(prefix, sort, term string) string {
	if len(term) < 48 {
		return term
	}
	n := fv.fresh(prefix, sort)
	fv.emit(fmt.Sprintf("(assert (= %s %s))", n, term))
	return n
}

func (fv *FuncVC) note(format string, a ...interface{}) {
	fv.notes = append(fv.notes, fmt.Sprintf(format, a...))
}

func (fv *FuncVC) unsupp(format string, a ...interface{}) {
	s := fmt.Sprintf(format, a...)
	for _, u := range fv.unsupported {
		if u == s {
			return
		}
	}
	fv.unsupported = append(fv.unsupported, s)
}

// ---------- heaps ----------

func (fv *FuncVC) heapGet(name, sort string) string {
	if fv.heapSort[name] == "" {
		fv.heapSort[name] = sort
		fv.emit(fmt.Sprintf("(declare-const %s %s)", name+"@0", sort))
	}
	if t, ok := fv.cur.heaps[name]; ok {
		return t
	}
	return name + "@0"
}

func (fv *FuncVC) heapEntry(name, sort string) string {
	if fv.heapSort[name] == "" {
		fv.heapSort[name] = sort
		fv.emit(fmt.Sprintf("(declare-const %s %s)", name+"@0", sort))
	}
	return name + "@0"
}

func (fv *FuncVC) heapAt(st *State, name, sort string) string {
	if fv.heapSort[name] == "" {
		fv.heapSort[name] = sort
		fv.emit(fmt.Sprintf("(declare-const %s %s)", name+"@0", sort))
	}
	if t, ok := st.heaps[name]; ok {
		return t
	}
	return name + "@0"
}

func (fv *FuncVC) heapSet(name, sort, term string) {
	fv.heapGet(name, sort)
	fv.cur.heaps[name] = fv.name(name, sort, term)
}

func (fv *FuncVC) heapHavoc(name string) {
	sort := fv.heapSort[name]
	if sort == "" {
		return
	}
	fv.cur.heaps[name] = fv.fresh(name, sort)
}

func (g *Gen) fieldHeap(st types.Type, field int) (string, string) {
	u := st.Underlying().(*types.Struct)
	sname := g.sorts.structSort(st, u)
	f := u.Field(field)
	return "H$" + strings.TrimPrefix(sname, "S$") + "$" + f.Name(), "(Array Int " + g.sorts.sortOf(f.Type()) + ")"
}

func (g *Gen) cellHeap(t types.Type) (string, string) {
	s := g.sorts.sortOf(t)
	return "C$" + sanitize(typeKey(t)), "(Array Int " + s + ")"
}

func (g *Gen) elemHeap(t types.Type) (string, string) {
	s := g.sorts.sortOf(t)
	return "E$" + sanitize(typeKey(t)), "(Array Int (Array Int " + s + "))"
}

func (g *Gen) mapHeaps(m *types.Map) (dom, val, card string, ks, vs string) {
	ks = g.sorts.sortOf(m.Key())
	vs = g.sorts.sortOf(m.Elem())
	base := sanitize(typeKey(m))
	return "MD$" + base, "MV$" + base, "MC$" + base, ks, vs
}

// ---------- allocation ----------

func (fv *FuncVC) allocRef() string {
	a := fv.heapGet("alloc", "Int")
	r := fv.name("ref", "Int", a)
	fv.cur.heaps["alloc"] = fv.name("alloc", "Int", "(+ "+a+" 1)")
	return r
}

// ---------- range/type assumptions ----------

func (fv *FuncVC) typeFacts(term string, t types.Type) string {
	switch u := t.Underlying().(type) {
	case *types.Basic:
		if lo, hi, ok := intRange(t); ok {
			return fmt.Sprintf("(and (<= %s %s) (<= %s %s))", intLit(lo), term, term, intLit(hi))
		}
		if u.Info()&types.IsString != 0 {
			return fmt.Sprintf("(and (<= 0 (slen %s)) (<= (slen %s) 72057594037927936))", term, term)
		}
	case *types.Pointer, *types.Map, *types.Chan:
		return fmt.Sprintf("(and (<= 0 %s) (< %s %s))", term, term, fv.heapGet("alloc", "Int"))
	case *types.Slice:
		return fmt.Sprintf("(and (<= 0 (s.arr %s)) (< (s.arr %s) %s) (<= 0 (s.off %s)) (<= 0 (s.len %s)) (<= (s.len %s) (s.cap %s)) (<= (s.cap %s) 72057594037927936) (=> (= (s.arr %s) 0) (= (s.cap %s) 0)))",
			term, term, fv.heapGet("alloc", "Int"), term, term, term, term, term, term, term)
	case *types.Interface:
		return fmt.Sprintf("(and (<= 0 (i.typ %s)) (=> (= (i.typ %s) 0) (= (i.val %s) 0)))", term, term, term)
	case *types.Struct:
		// a struct value: every field is a value of its type (machine-integer ranges, slice shapes ...)
		if u.NumFields() == 0 || u.NumFields() > 24 {
			return "true"
		}
		sn := fv.g.sorts.structSort(t, u)
		var parts []string
		for i := 0; i < u.NumFields(); i++ {
			ft := u.Field(i).Type()
			if _, nested := ft.Underlying().(*types.Struct); nested {
				continue // one level is enough for decoded argument records
			}
			if f := fv.typeFacts("("+fieldAcc(sn, i)+" "+term+")", ft); f != "true" {
				parts = append(parts, f)
			}
		}
		if len(parts) > 0 {
			return and(parts...)
		}
	}
	return "true"
}

func (fv *FuncVC) assumeType(term string, t types.Type) {
	f := fv.typeFacts(term, t)
	if f != "true" {
		fv.emit("(assert " + f + ")")
	}
}

// havocVal returns a fresh value of type t with type facts assumed.
func (fv *FuncVC) havocVal(prefix string, t types.Type) *Val {
	if tup, ok := t.(*types.Tuple); ok {
		v := &Val{Typ: t}
		for i := 0; i < tup.Len(); i++ {
			v.Tuple = append(v.Tuple, fv.havocVal(fmt.Sprintf("%s.%d", prefix, i), tup.At(i).Type()))
		}
		return v
	}
	n := fv.fresh(prefix, fv.g.sorts.sortOf(t))
	fv.assumeType(n, t)
	return &Val{T: n, Typ: t}
}

// ---------- string constants ----------

func (g *Gen) strConst(s string) string {
	if s == "" {
		return "str!empty"
	}
	if n, ok := g.strConsts[s]; ok {
		return n
	}
	n := fmt.Sprintf("str!c%d", len(g.strConsts))
	g.strConsts[s] = n
	g.strOrder = append(g.strOrder, s)
	return n
}

func (g *Gen) strDecls() string {
	var b strings.Builder
	for _, s := range g.strOrder {
		n := g.strConsts[s]
		fmt.Fprintf(&b, "(declare-const %s Str) ; %q\n", n, s)
		fmt.Fprintf(&b, "(assert (= (slen %s) %d))\n", n, len(s))
		for i := 0; i < len(s); i++ {
			fmt.Fprintf(&b, "(assert (= (sat %s %d) %d))\n", n, i, s[i])
		}
	}
	// distinctness of constants
	if len(g.strOrder) > 1 {
		b.WriteString("(assert (distinct str!empty")
		for _, s := range g.strOrder {
			b.WriteString(" " + g.strConsts[s])
		}
		b.WriteString("))\n")
	}
	return b.String()
}

func (g *Gen) declareGlobal(name, decl string) {
	if _, ok := g.extraDecl[name]; ok {
		return
	}
	g.extraDecl[name] = decl
	g.extraOrder = append(g.extraOrder, name)
}

// ---------- function keys ----------

func funcKey(fn *ssa.Function) string {
	if fn == nil {
		return "?"
	}
	if fn.Parent() != nil {
		return funcKey(fn.Parent()) + strings.TrimPrefix(fn.Name(), fn.Parent().Name())
	}
	pkgPrefix := ""
	if fn.Pkg != nil && fn.Pkg.Pkg.Path() != "github.com/absfs/absnfs" {
		pkgPrefix = fn.Pkg.Pkg.Path() + "."
	} else if fn.Pkg == nil && fn.Signature.Recv() != nil {
		// method of external or instantiated type
		if p := recvPkg(fn.Signature.Recv().Type()); p != nil && p.Path() != "github.com/absfs/absnfs" {
			pkgPrefix = p.Path() + "."
		}
	}
	if recv := fn.Signature.Recv(); recv != nil {
		rt := recv.Type()
		if p, ok := rt.(*types.Pointer); ok {
			rt = p.Elem()
		}
		name := ""
		if n, ok := rt.(*types.Named); ok {
			name = n.Obj().Name()
		} else {
			name = sanitize(rt.String())
		}
		return pkgPrefix + name + "." + fn.Name()
	}
	return pkgPrefix + fn.Name()
}

func recvPkg(t types.Type) *types.Package {
	if p, ok := t.(*types.Pointer); ok {
		t = p.Elem()
	}
	if n, ok := t.(*types.Named); ok {
		return n.Obj().Pkg()
	}
	return nil
}

func shortPkg(path string) string {
	if i := strings.LastIndex(path, "/"); i >= 0 {
		return path[i+1:]
	}
	return path
}

// calleeKeys returns candidate contract keys for a call (most specific first).
func calleeKeys(c *ssa.CallCommon) []string {
	if c.IsInvoke() {
		// interface method
		rt := types.Unalias(c.Value.Type()) // os.FileInfo is an alias of io/fs.FileInfo
		name := ""
		if n, ok := rt.(*types.Named); ok {
			if n.Obj().Pkg() != nil && n.Obj().Pkg().Path() != "github.com/absfs/absnfs" {
				name = shortPkg(n.Obj().Pkg().Path()) + "." + n.Obj().Name()
			} else {
				name = n.Obj().Name()
			}
		} else {
			name = "interface"
		}
		keys := []string{name + "." + c.Method.Name()}
		if n, ok := rt.(*types.Named); ok && n.Obj().Pkg() != nil && n.Obj().Pkg().Path() == "github.com/absfs/absfs" {
			if n.Obj().Name() == "File" || n.Obj().Name() == "Seekable" || n.Obj().Name() == "UnSeekable" {
				keys = append(keys, "absfs.File."+c.Method.Name())
			} else {
				keys = append(keys, "absfs.FS."+c.Method.Name())
			}
		}
		return append(keys, "iface."+c.Method.Name())
	}
	switch f := c.Value.(type) {
	case *ssa.Function:
		k := funcKey(f)
		keys := []string{k}
		// short package alias, e.g. strings.ToLower, bytes.Buffer.Len
		if f.Pkg != nil && f.Pkg.Pkg.Path() != "github.com/absfs/absnfs" {
			keys = append(keys, shortPkg(f.Pkg.Pkg.Path())+"."+strings.TrimPrefix(k, f.Pkg.Pkg.Path()+"."))
		} else if f.Pkg == nil && f.Signature.Recv() != nil {
			if p := recvPkg(f.Signature.Recv().Type()); p != nil {
				keys = append(keys, shortPkg(p.Path())+"."+strings.TrimPrefix(k, p.Path()+"."))
			}
		}
		if f.Origin() != nil {
			keys = append(keys, funcKey(f.Origin()))
			if f.Origin().Signature.Recv() != nil {
				if p := recvPkg(f.Origin().Signature.Recv().Type()); p != nil {
					keys = append(keys, shortPkg(p.Path())+"."+strings.TrimPrefix(funcKey(f.Origin()), p.Path()+"."))
				}
			} else if f.Origin().Pkg != nil && f.Origin().Pkg.Pkg.Path() != "github.com/absfs/absnfs" {
				// instance of a generic function of another package (slices.Equal[...]): keyed like the generic
				op := f.Origin().Pkg.Pkg.Path()
				keys = append(keys, shortPkg(op)+"."+strings.TrimPrefix(funcKey(f.Origin()), op+"."))
			}
		}
		return keys
	case *ssa.Builtin:
		return []string{"builtin." + f.Name()}
	}
	return nil
}

// ---------- loops ----------

func (fv *FuncVC) analyzeLoops() {
	fn := fv.fn
	fv.backEdge = map[[2]int]bool{}
	fv.loopOrd = map[*ssa.BasicBlock]int{}
	fv.loopBody = map[*ssa.BasicBlock]map[*ssa.BasicBlock]bool{}
	var heads []*ssa.BasicBlock
	for _, b := range fn.Blocks {
		for _, s := range b.Succs {
			if s.Dominates(b) {
				fv.backEdge[[2]int{b.Index, s.Index}] = true
				if fv.loopBody[s] == nil {
					fv.loopBody[s] = map[*ssa.BasicBlock]bool{s: true}
					heads = append(heads, s)
				}
				// natural loop: nodes reaching b without passing s
				stack := []*ssa.BasicBlock{b}
				for len(stack) > 0 {
					n := stack[len(stack)-1]
					stack = stack[:len(stack)-1]
					if fv.loopBody[s][n] {
						continue
					}
					fv.loopBody[s][n] = true
					for _, p := range n.Preds {
						stack = append(stack, p)
					}
				}
			}
		}
	}
	// ordinal by source position of the head's first positioned instruction; fall back to block index
	sort.Slice(heads, func(i, j int) bool {
		pi, pj := fv.loopPos(heads[i]), fv.loopPos(heads[j])
		if pi != pj {
			return pi < pj
		}
		return heads[i].Index < heads[j].Index
	})
	for i, h := range heads {
		fv.loopOrd[h] = i + 1
	}
}

func (fv *FuncVC) loopPos(h *ssa.BasicBlock) token.Pos {
	// smallest position of any instruction inside the loop
	best := token.Pos(1 << 40)
	for b := range fv.loopBody[h] {
		for _, in := range b.Instrs {
			if p := in.Pos(); p.IsValid() && p < best {
				best = p
			}
			if d, ok := in.(*ssa.DebugRef); ok && d.Expr != nil && d.Expr.Pos() < best {
				best = d.Expr.Pos()
			}
		}
	}
	return best
}

func (fv *FuncVC) posStr(p token.Pos) string {
	if !p.IsValid() {
		return ""
	}
	pp := fv.g.fset.Position(p)
	f := pp.Filename
	if i := strings.LastIndex(f, "/"); i >= 0 {
		f = f[i+1:]
	}
	return fmt.Sprintf("%s:%d", f, pp.Line)
}

// topological order ignoring back edges
func (fv *FuncVC) topo() []*ssa.BasicBlock {
	fn := fv.fn
	indeg := make([]int, len(fn.Blocks))
	for _, b := range fn.Blocks {
		for _, s := range b.Succs {
			if !fv.backEdge[[2]int{b.Index, s.Index}] {
				indeg[s.Index]++
			}
		}
	}
	var order []*ssa.BasicBlock
	var ready []*ssa.BasicBlock
	for _, b := range fn.Blocks {
		if indeg[b.Index] == 0 && (b.Index == 0 || len(b.Preds) > 0) {
			ready = append(ready, b)
		}
	}
	seen := map[int]bool{}
	for len(ready) > 0 {
		// pick smallest index for determinism
		sort.Slice(ready, func(i, j int) bool { return ready[i].Index < ready[j].Index })
		b := ready[0]
		ready = ready[1:]
		if seen[b.Index] {
			continue
		}
		seen[b.Index] = true
		order = append(order, b)
		for _, s := range b.Succs {
			if fv.backEdge[[2]int{b.Index, s.Index}] {
				continue
			}
			indeg[s.Index]--
			if indeg[s.Index] == 0 {
				ready = append(ready, s)
			}
		}
	}
	return order
}
