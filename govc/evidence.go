package main

// evidence.go: known findings, VIOLATION reporting, evidence files.

import (
	"encoding/json"
	"fmt"
	"os"
	"path/filepath"
	"strings"
)

type KnownFinding struct {
	Property   string `json:"property"`
	ID         string `json:"id"`
	Obligation string `json:"obligation"` // prefix of obligation name, e.g. "FileHandleMap.Allocate#ensures#issued-stable-reuse"
	What       string `json:"what"`
	Witness    string `json:"witness"`
	Replay     string `json:"replay,omitempty"` // in-package test file (relative to /verif) demonstrating the defect on the real code
	ReplayRun  string `json:"replay_run,omitempty"`
}

type FixedFinding struct {
	Property string `json:"property"`
	Commit   string `json:"commit"`
	What     string `json:"what"`
}

type KnownFile struct {
	Known []KnownFinding `json:"known"`
	Fixed []FixedFinding `json:"fixed"`
}

func loadKnown(path string) *KnownFile {
	kf := &KnownFile{}
	data, err := os.ReadFile(path)
	if err != nil {
		return kf
	}
	json.Unmarshal(data, kf)
	return kf
}

func (kf *KnownFile) match(prop, obl string) *KnownFinding {
	for i := range kf.Known {
		k := &kf.Known[i]
		if k.Property != prop {
			continue
		}
		if obl == k.Obligation || strings.HasPrefix(obl, k.Obligation+"#") || strings.HasPrefix(obl, k.Obligation+"@") {
			return k
		}
		// "*#assert#kf-label": the same recorded finding at every function's site of that clause (the label
		// must itself be a kf- label, so only clauses written as known findings can be matched this way)
		if strings.HasPrefix(k.Obligation, "*#") && strings.Contains(k.Obligation, "#kf-") {
			suffix := k.Obligation[1:]
			if i := strings.Index(obl, suffix); i > 0 {
				rest := obl[i+len(suffix):]
				if rest == "" || rest[0] == '#' || rest[0] == '@' {
					return k
				}
			}
		}
	}
	return nil
}

type Evidence struct {
	PropertyID  string                 `json:"property_id"`
	Tier        string                 `json:"tier"`
	Seed        int                    `json:"seed"`
	Level       string                 `json:"level"`
	Coverage    map[string]interface{} `json:"coverage"`
	Assumptions []string               `json:"assumptions"`
	WallS       float64                `json:"wall_s"`
	Violations  int                    `json:"violations"`
}

var baseAssumptions = []string{
	"A-SSA: go/packages + go/types + go/ssa (x/tools v0.29.0, NaiveForm) produce SSA faithful to what gc compiles; govc's SSA->SMT translation is correct",
	"A-SMT: z3 4.8.12 / z3-new 5.1.0 / cvc5 1.0.3 are sound on 'unsat'",
	"A-INT: integers are mathematical Ints re-normalised with exact two's-complement wrap after every arithmetic operation (overflow modelled, not assumed away); int is 64-bit",
	"A-MEM: slice and string lengths are at most 2^56; heap contents are well-typed; every pointer read from memory is an allocated reference",
	"A-SEQ: each function is verified under sequential semantics; other goroutines do not modify the state it reads except where a lock-discipline obligation says otherwise",
	"A-EXT: an un-contracted external function modifies only memory reachable from its arguments and calls back only through interface methods of its arguments",
	"A-STR: strings are an uninterpreted sort with length and byte-at functions (extensionality is not assumed, which only makes proofs harder, never unsound)",
	"termination is not proved (partial correctness)",
}

func writeEvidence(path string, res *CheckResult, seed int, known []string, extraAssumptions []string, violations int) error {
	cov := map[string]interface{}{}
	cov["obligations"] = res.Obligations
	cov["discharged"] = res.Discharged
	cov["checker_cmd"] = fmt.Sprintf("/verif/bin/govc check -prop %s -tier %s (VCs generated from /repo working tree via go/ssa; solvers z3-new/z3/cvc5)", res.Prop, res.Tier)
	cov["trusted_base"] = []string{"go/packages+go/ssa x/tools v0.29.0", "govc VC generator (/verif/govc)", "z3 4.8.12", "z3-new 5.1.0", "cvc5 1.0.3", "assumed contracts in /verif/specs/*.spec and 'assumed' blocks in /repo/zz_contracts_*_verif.go"}
	cov["functions_under_contract"] = res.Functions
	cov["by_solver"] = res.BySolver
	cov["solver_ms_total"] = res.SolverMS
	cov["vacuity"] = map[string]interface{}{"guards": res.VacuityTotal, "not_vacuous_or_inconclusive": res.VacuityOK,
		"rule": "requires-sat, invariant-sat and exit canaries must not be 'unsat'; 'unknown' (quantifiers) is inconclusive and tolerated"}
	cov["assumed_contracts_used"] = res.Assumed
	cov["axioms"] = res.AxiomsUsed
	cov["known_findings_reported"] = known
	var undec []string
	for _, u := range res.Undecided {
		undec = append(undec, u.Name+" ("+u.Verdict+")")
	}
	cov["undecided_safety_in_abstracted_functions"] = undec
	var failed []string
	for _, f := range res.Failed {
		failed = append(failed, f.Name+" ("+f.Verdict+")")
	}
	cov["failed_obligations"] = failed
	var samples []interface{}
	for i, o := range res.All {
		if o.Expect != "unsat" || o.Verdict != "unsat" {
			continue
		}
		if len(samples) < 6 || (i%17 == 0 && len(samples) < 12) {
			samples = append(samples, map[string]interface{}{"obligation": o.Name, "kind": o.Kind, "clause": o.Clause, "pos": o.Pos, "solver": o.Solver, "ms": o.MS})
		}
	}
	if len(samples) == 0 {
		for _, o := range res.All {
			samples = append(samples, map[string]interface{}{"obligation": o.Name, "verdict": o.Verdict})
			if len(samples) > 3 {
				break
			}
		}
	}
	cov["samples"] = samples
	cov["all_obligations"] = res.All
	if len(res.Bounded) > 0 {
		cov["bounded"] = res.Bounded
	}
	ev := &Evidence{PropertyID: res.Prop, Tier: res.Tier, Seed: seed, Level: "proof", Coverage: cov, WallS: res.WallS, Violations: violations}
	ev.Assumptions = append(ev.Assumptions, baseAssumptions...)
	ev.Assumptions = append(ev.Assumptions, extraAssumptions...)
	if len(res.GuardRules) > 0 {
		cov["guarded_declarations"] = res.GuardRules
		cov["guarded_accessors_not_translated"] = res.GuardUnchecked
		ev.Assumptions = append(ev.Assumptions,
			"A-MUTEX: sync.Mutex / sync.RWMutex give mutual exclusion and happens-before as documented; a guarded field is declared by hand (fields and structures not listed in a 'guarded' declaration are not covered)",
			"A-OWN: an object allocated by the current call is private to it until the call returns (the ownership escape of the guarded obligations); publication before the last access inside the allocating function is not tracked",
			"A-ALIAS: the pointee rule ('f*') follows x.f.G, *x.f and x.f.M() only; a copy of the pointer kept in a local variable or passed on is not followed",
			"A-LOCKNEUTRAL: a callee without a contract, a closure called synchronously and a deferred closure return with the locks they were entered with; a function without held(...) preconditions is entered holding none of the mutexes it uses (A-LOCKENTRY)",
			"no-relock obligations work on mutex CLASSES (struct type + field) and on the static call graph: a callee reached through an interface or a function value is not followed, and holding one object's mutex while a callee locks another object's mutex of the same class is flagged although it need not deadlock",
			"atlock/reacquire (SetAttr): interference between a function's critical sections is modelled only where a reacquire rule is declared; elsewhere a function that releases and re-takes a lock is verified under sequential semantics",
			"what is decided is lock-set data-race freedom of the declared state for all schedules, plus the single-operation clauses listed in the level note; deadlock across several mutexes of different classes, linearizability of replies and cache/backend agreement after arbitrary concurrent runs are not decided")
		for _, r := range res.GuardRules {
			if ex, ok := r["exempt_functions"]; ok {
				ev.Assumptions = append(ev.Assumptions, fmt.Sprintf("guarded rule %v: accesses in %v are trusted (synchronised by other means than the declared mutex)", r["label"], ex))
			}
		}
		for _, u := range res.GuardUnchecked {
			ev.Assumptions = append(ev.Assumptions, "guarded pass: accessor could not be translated and is NOT checked: "+u)
		}
	}
	for _, a := range res.Assumed {
		ev.Assumptions = append(ev.Assumptions, "assumed contract: "+a)
	}
	for _, fr := range res.Functions {
		for _, u := range fr.Uncontracted {
			ev.Assumptions = append(ev.Assumptions, fmt.Sprintf("in %s: un-contracted callee %s abstracted by havoc of its inferred write set", fr.Func, u))
		}
		for _, u := range fr.External {
			ev.Assumptions = append(ev.Assumptions, fmt.Sprintf("in %s: external callee %s abstracted (A-EXT)", fr.Func, u))
		}
		for _, n := range fr.Notes {
			ev.Assumptions = append(ev.Assumptions, fmt.Sprintf("in %s: %s", fr.Func, n))
		}
		for _, n := range fr.Unsupported {
			ev.Assumptions = append(ev.Assumptions, fmt.Sprintf("in %s: UNSUPPORTED construct abstracted by havoc: %s", fr.Func, n))
		}
	}
	ev.Assumptions = dedup(ev.Assumptions)
	os.MkdirAll(filepath.Dir(path), 0o755)
	data, err := json.MarshalIndent(ev, "", " ")
	if err != nil {
		return err
	}
	return os.WriteFile(path, data, 0o644)
}

func dedup(xs []string) []string {
	seen := map[string]bool{}
	var out []string
	for _, x := range xs {
		if !seen[x] {
			seen[x] = true
			out = append(out, x)
		}
	}
	return out
}
