package main

// exec.go: symbolic execution of SSA instructions.

import (
	"fmt"
	"go/constant"
	"go/token"
	"go/types"
	"math/big"
	"strings"

	"golang.org/x/tools/go/ssa"
)

func (fv *FuncVC) sortOf(t types.Type) string { return fv.g.sorts.sortOf(t) }

// val returns the symbolic value of an SSA value.
func (fv *FuncVC) val(v ssa.Value) *Val {
	if r, ok := fv.regs[v]; ok {
		return r
	}
	switch x := v.(type) {
	case *ssa.Const:
		return fv.constVal(x)
	case *ssa.Global:
		return &Val{T: "0", Typ: x.Type(), Place: &Place{Kind: PGlobal, Global: x, Root: deref(x.Type()), Typ: deref(x.Type())}}
	case *ssa.Function:
		return &Val{T: fmt.Sprintf("%d", fv.g.fnID(funcKey(x))), Typ: x.Type(), Fn: x}
	case *ssa.Builtin:
		return &Val{T: "0", Typ: x.Type()}
	case *ssa.Parameter:
		if p, ok := fv.params[x.Name()]; ok {
			return p
		}
	case *ssa.FreeVar:
		if p, ok := fv.params[x.Name()]; ok {
			return p
		}
	}
	fv.unsupp("value %T %s undefined", v, v.Name())
	r := fv.havocVal("undef", v.Type())
	fv.regs[v] = r
	return r
}

func (g *Gen) fnID(key string) int {
	if id, ok := g.fnIDs[key]; ok {
		return id
	}
	id := 1000 + len(g.fnIDs)
	g.fnIDs[key] = id
	return id
}

func (fv *FuncVC) constVal(c *ssa.Const) *Val {
	t := c.Type()
	if c.Value == nil {
		return &Val{T: fv.g.sorts.zero(t), Typ: t}
	}
	if c.Value.Kind() == constant.String {
		return &Val{T: fv.g.strConst(constant.StringVal(c.Value)), Typ: t}
	}
	s, ok := constToTerm(c.Value, t)
	if !ok {
		fv.unsupp("constant %s", c.Value.ExactString())
		return fv.havocVal("const", t)
	}
	return &Val{T: s, Typ: t}
}

func (fv *FuncVC) setReg(v ssa.Value, r *Val) {
	if r.Typ == nil {
		r.Typ = v.Type()
	}
	fv.regs[v] = r
}

// safety obligation: cond must hold at this point; afterwards assumed.
func (fv *FuncVC) safety(kind string, pos token.Pos, cond string) {
	if cond == "true" {
		return
	}
	fv.safetyN[kind]++
	ob := &Obligation{
		Name: fmt.Sprintf("%s#safety#%s#%d", fv.key, kind, fv.safetyN[kind]), Func: fv.key, Kind: "safety", Label: kind,
		Expect: "unsat", Prefix: len(fv.lines), Goal: cond, Reach: fv.pc, Pos: fv.posStr(pos), fv: fv,
		Abstract: fv.con == nil || fv.con.Abstract || fv.con.Sweep,
	}
	if fv.con != nil {
		ob.Props = fv.con.Props
	}
	fv.obls = append(fv.obls, ob)
	fv.assume(cond)
}

func (fv *FuncVC) oblige(kind, label string, props []string, goal, src string, pos string) *Obligation {
	ob := &Obligation{
		Name: fmt.Sprintf("%s#%s#%s", fv.key, kind, label), Func: fv.key, Kind: kind, Label: label,
		Expect: "unsat", Prefix: len(fv.lines), Goal: goal, Reach: fv.pc, Pos: pos, Src: src, fv: fv, Props: props,
	}
	if fv.con != nil && fv.con.Partial && (kind == "call-pre" || kind == "lock" || kind == "alloc-bound") {
		ob.Abstract = true
	}
	// de-duplicate names
	n := 0
	for _, o := range fv.obls {
		if o.Name == ob.Name || strings.HasPrefix(o.Name, ob.Name+"@") {
			n++
		}
	}
	if n > 0 {
		ob.Name = fmt.Sprintf("%s@%d", ob.Name, n+1)
	}
	fv.obls = append(fv.obls, ob)
	return ob
}

func (fv *FuncVC) nonNil(v *Val, pos token.Pos) {
	if v.Place != nil {
		return
	}
	fv.safety("nil-deref", pos, "(not (= "+v.T+" 0))")
}

// ---------- instruction dispatch ----------

func (fv *FuncVC) execInstr(in ssa.Instruction) {
	switch x := in.(type) {
	case *ssa.DebugRef:
	case *ssa.Alloc:
		fv.execAlloc(x)
	case *ssa.Store:
		addr := fv.val(x.Addr)
		fv.nonNil(addr, x.Pos())
		p := fv.placeFromPointer(addr)
		fv.storePlace(p, fv.val(x.Val))
	case *ssa.UnOp:
		fv.execUnOp(x)
	case *ssa.BinOp:
		fv.setReg(x, fv.binop(x.Op, fv.val(x.X), fv.val(x.Y), x.Type(), x.Pos()))
	case *ssa.FieldAddr:
		base := fv.val(x.X)
		fv.nonNil(base, x.Pos())
		fv.execGuardedAccess(x, base)
		if len(fv.g.spec.Guarded) > 0 && guardUsesPlain(x) {
			fv.guardDeep(x.X, guardAccessIsWrite(x), "field access", x.Pos())
		}
		p := fv.placeFromPointer(base)
		fp := fv.fieldPlace(p, x.Field)
		fv.setReg(x, &Val{T: "0", Typ: x.Type(), Place: fp})
	case *ssa.Field:
		sv := fv.val(x.X)
		st := x.X.Type().Underlying().(*types.Struct)
		sn := fv.g.sorts.structSort(x.X.Type(), st)
		fv.setReg(x, &Val{T: "(" + fieldAcc(sn, x.Field) + " " + sv.T + ")", Typ: x.Type()})
	case *ssa.IndexAddr:
		fv.execIndexAddr(x)
	case *ssa.Index:
		fv.execIndex(x)
	case *ssa.Lookup:
		fv.execLookup(x)
	case *ssa.Slice:
		fv.execSlice(x)
	case *ssa.MakeSlice:
		fv.execMakeSlice(x)
	case *ssa.MakeMap:
		fv.execMakeMap(x)
	case *ssa.MapUpdate:
		fv.execMapUpdate(x)
	case *ssa.MakeInterface:
		fv.execMakeInterface(x)
	case *ssa.ChangeInterface:
		fv.setReg(x, &Val{T: fv.val(x.X).T, Typ: x.Type()})
	case *ssa.ChangeType:
		v := fv.val(x.X)
		nv := *v
		nv.Typ = x.Type()
		// struct types with distinct names map to distinct sorts: convert field-wise
		if _, ok := x.Type().Underlying().(*types.Struct); ok && fv.sortOf(x.Type()) != fv.sortOf(x.X.Type()) {
			nv.T = fv.convertStruct(v.T, x.X.Type(), x.Type())
		}
		fv.setReg(x, &nv)
	case *ssa.Convert:
		fv.setReg(x, fv.convert(fv.val(x.X), x.Type(), x.Pos()))
	case *ssa.TypeAssert:
		fv.execTypeAssert(x)
	case *ssa.Extract:
		t := fv.val(x.Tuple)
		if t.Tuple == nil || x.Index >= len(t.Tuple) {
			fv.unsupp("extract from non-tuple")
			fv.setReg(x, fv.havocVal("ext", x.Type()))
		} else {
			fv.setReg(x, t.Tuple[x.Index])
		}
	case *ssa.Call:
		fv.execCall(x, x.Common(), x)
	case *ssa.Defer:
		fv.execDefer(x)
	case *ssa.RunDefers:
		fv.execRunDefers(x)
	case *ssa.Go:
		fv.execGo(x)
	case *ssa.MakeClosure:
		fn := x.Fn.(*ssa.Function)
		var binds []*Val
		for _, b := range x.Bindings {
			binds = append(binds, fv.val(b))
		}
		r := fv.allocRef()
		// closure objects are immutable: their code and captured cells are facts about the reference
		fv.g.declareGlobal("clofn", "(declare-fun clofn (Int) Int)")
		fv.g.declareGlobal("clobind", "(declare-fun clobind (Int Int) Int)")
		fv.assume(fmt.Sprintf("(= (clofn %s) %d)", r, fv.g.fnID(funcKey(fn))))
		for i, b := range binds {
			if fv.g.sorts.sortOf(b.Typ) == "Int" {
				bt := b.T
				if b.Place != nil {
					bt = fv.placeToValue(b.Place, b.Typ)
				}
				fv.assume(fmt.Sprintf("(= (clobind %s %d) %s)", r, i, bt))
			}
		}
		fv.setReg(x, &Val{T: r, Typ: x.Type(), Fn: fn, Bind: binds})
	case *ssa.MakeChan:
		r := fv.allocRef()
		fv.setReg(x, &Val{T: r, Typ: x.Type()})
	case *ssa.Send:
		// channel sends are not modelled (skip)
		fv.note("channel send not modelled")
	case *ssa.Select:
		fv.note("select modelled as nondeterministic choice")
		fv.setReg(x, fv.havocVal("select", x.Type()))
		// index within range
		if r := fv.regs[x]; r.Tuple != nil {
			n := len(x.States)
			hi := n - 1
			lo := 0
			if !x.Blocking {
				lo = -1
			}
			los := fmt.Sprint(lo)
			if lo < 0 {
				los = fmt.Sprintf("(- %d)", -lo) // SMT-LIB has no negative literals (cvc5 rejects "-1")
			}
			fv.assume(fmt.Sprintf("(and (<= %s %s) (<= %s %d))", los, r.Tuple[0].T, r.Tuple[0].T, hi))
		}
	case *ssa.Range:
		fv.execRange(x)
	case *ssa.Next:
		fv.execNext(x)
	case *ssa.Phi:
		// handled at block entry
	case *ssa.Panic:
		fv.safety("panic", x.Pos(), "false")
	case *ssa.SliceToArrayPointer, *ssa.MultiConvert:
		fv.unsupp("%T", in)
		if v, ok := in.(ssa.Value); ok {
			fv.setReg(v, fv.havocVal("u", v.Type()))
		}
	case *ssa.If, *ssa.Jump, *ssa.Return:
		// terminators handled by driver
	default:
		fv.unsupp("instruction %T", in)
		if v, ok := in.(ssa.Value); ok {
			fv.setReg(v, fv.havocVal("u", v.Type()))
		}
	}
}

func (fv *FuncVC) convertStruct(term string, from, to types.Type) string {
	fs := from.Underlying().(*types.Struct)
	ts := to.Underlying().(*types.Struct)
	fsn := fv.g.sorts.structSort(from, fs)
	tsn := fv.g.sorts.structSort(to, ts)
	if ts.NumFields() == 0 {
		return "mk!" + tsn
	}
	parts := []string{"mk!" + tsn}
	for i := 0; i < ts.NumFields(); i++ {
		parts = append(parts, "("+fieldAcc(fsn, i)+" "+term+")")
	}
	return "(" + strings.Join(parts, " ") + ")"
}

func (fv *FuncVC) execAlloc(a *ssa.Alloc) {
	t := deref(a.Type())
	if fv.direct[a] {
		fv.cur.cells[a] = fv.g.sorts.zero(t)
		fv.setReg(a, &Val{T: "0", Typ: a.Type(), Place: fv.placeOfAlloc(a)})
		return
	}
	r := fv.allocRef()
	v := &Val{T: r, Typ: a.Type()}
	fv.setReg(a, v)
	// zero-initialise
	p := fv.placeFromPointer(v)
	fv.storePlace(p, &Val{T: fv.g.sorts.zero(t), Typ: t})
	fv.initOnceFields(p, t, 0)
	fv.allocInit(t, v)
}

// initOnceFields: the sync.Once values inside a freshly allocated object have not fired.
func (fv *FuncVC) initOnceFields(p *Place, t types.Type, depth int) {
	if depth > 4 {
		return
	}
	if n, ok := t.(*types.Named); ok && n.Obj().Pkg() != nil && n.Obj().Pkg().Path() == "sync" && n.Obj().Name() == "Once" {
		id := fv.placeToValue(p, types.NewPointer(t))
		fv.heapSet("ONCE", "(Array Int Bool)", "(store "+fv.heapGet("ONCE", "(Array Int Bool)")+" "+id+" false)")
		return
	}
	st, ok := t.Underlying().(*types.Struct)
	if !ok {
		return
	}
	for i := 0; i < st.NumFields(); i++ {
		ft := st.Field(i).Type()
		if _, isStruct := ft.Underlying().(*types.Struct); isStruct {
			fv.initOnceFields(fv.fieldPlace(p, i), ft, depth+1)
		}
	}
}

// allocInit runs the ghost initialisation declared for objects of type t (//@ allocinit).
func (fv *FuncVC) allocInit(t types.Type, ref *Val) {
	if fv.g.spec.AllocInits == nil {
		return
	}
	key := types.TypeString(t, func(p *types.Package) string {
		if p == nil || p.Path() == "github.com/absfs/absnfs" {
			return ""
		}
		return p.Name()
	})
	for _, gs := range fv.g.spec.AllocInits[key] {
		gt, ok := fv.g.spec.Ghosts[gs.Ghost]
		if !ok {
			fv.unsupp("spec error: allocinit: unknown ghost %s", gs.Ghost)
			continue
		}
		gtyp := fv.g.resolveType(gt)
		env := &Env{fv: fv, st: fv.cur, old: fv.cur, vars: map[string]*Val{"this": ref}, allocOld: "0"}
		val := env.tr(gs.Val)
		name, sort := "GH$"+gs.Ghost, fv.sortOf(gtyp)
		if gs.Idx != nil {
			idx := env.tr(gs.Idx)
			fv.heapSet(name, sort, "(store "+fv.heapGet(name, sort)+" "+idx.T+" "+val.T+")")
		} else {
			fv.heapSet(name, sort, val.T)
		}
		fv.reportSpecErrs(env, &Clause{File: "allocinit", Line: gs.Line})
	}
}

func (fv *FuncVC) execUnOp(x *ssa.UnOp) {
	switch x.Op {
	case token.MUL: // load
		addr := fv.val(x.X)
		fv.nonNil(addr, x.Pos())
		if len(fv.g.spec.Guarded) > 0 {
			fv.guardDeep(x.X, false, "copied", x.Pos())
		}
		p := fv.placeFromPointer(addr)
		v := fv.loadPlace(fv.cur, p)
		s := fv.sortOf(x.Type())
		v.T = fv.name("ld", s, v.T)
		if p.Kind != PLocal {
			fv.assumeType(v.T, x.Type())
		}
		if p.Kind == PGlobal && p.Global.Pkg != nil && len(p.Path) == 0 {
			// sentinel errors (os.ErrNotExist, io.EOF, ErrTimeout ...) are non-nil package variables
			if _, isIface := x.Type().Underlying().(*types.Interface); isIface && types.Identical(x.Type(), types.Universe.Lookup("error").Type()) {
				n := p.Global.Name()
				if strings.HasPrefix(n, "Err") || n == "EOF" || strings.HasPrefix(n, "err") {
					fv.emit("(assert (not (= (i.typ " + v.T + ") 0)))")
				}
			}
		}
		v.Typ = x.Type()
		fv.setReg(x, v)
	case token.NOT:
		fv.setReg(x, &Val{T: not(fv.val(x.X).T), Typ: x.Type()})
	case token.SUB:
		v := fv.val(x.X)
		if isFloat(x.Type()) {
			fv.setReg(x, &Val{T: "(- " + v.T + ")", Typ: x.Type()})
		} else {
			fv.setReg(x, &Val{T: wrapInt("(- "+v.T+")", x.Type(), "add"), Typ: x.Type()})
		}
	case token.XOR:
		v := fv.val(x.X)
		lo, hi, ok := intRange(x.Type())
		if !ok {
			fv.unsupp("^ on non-integer")
			fv.setReg(x, fv.havocVal("u", x.Type()))
			return
		}
		if lo.Sign() == 0 {
			fv.setReg(x, &Val{T: "(- " + intLit(hi) + " " + v.T + ")", Typ: x.Type()})
		} else {
			fv.setReg(x, &Val{T: "(- (- 1) " + v.T + ")", Typ: x.Type()})
		}
	case token.ARROW:
		fv.note("channel receive modelled as arbitrary value")
		fv.setReg(x, fv.havocVal("recv", x.Type()))
	default:
		fv.unsupp("unop %s", x.Op)
		fv.setReg(x, fv.havocVal("u", x.Type()))
	}
}

func constOf(v *Val) (*big.Int, bool) {
	s := v.T
	neg := false
	if strings.HasPrefix(s, "(- ") && strings.HasSuffix(s, ")") {
		neg = true
		s = s[3 : len(s)-1]
	}
	bi, ok := new(big.Int).SetString(s, 10)
	if !ok {
		return nil, false
	}
	if neg {
		bi.Neg(bi)
	}
	return bi, true
}

// bitAndConst computes x & c for constant c >= 0 (x any integer, two's complement).
func bitAndConst(x string, c *big.Int) string {
	if c.Sign() == 0 {
		return "0"
	}
	// decompose c into runs of set bits
	var terms []string
	n := c.BitLen()
	i := 0
	for i < n {
		if c.Bit(i) == 0 {
			i++
			continue
		}
		j := i
		for j < n && c.Bit(j) == 1 {
			j++
		}
		// bits i..j-1
		width := uint(j - i)
		var t string
		if i == 0 {
			t = fmt.Sprintf("(mod %s %s)", x, pow2(width).String())
		} else {
			t = fmt.Sprintf("(* %s (mod (div %s %s) %s))", pow2(uint(i)).String(), x, pow2(uint(i)).String(), pow2(width).String())
		}
		terms = append(terms, t)
		i = j
	}
	if len(terms) == 1 {
		return terms[0]
	}
	return "(+ " + strings.Join(terms, " ") + ")"
}

func (fv *FuncVC) bitwise(op token.Token, a, b *Val, t types.Type) *Val {
	ca, aok := constOf(a)
	cb, bok := constOf(b)
	x, c := a, cb
	cok := bok
	if !bok && aok && op != token.AND_NOT {
		x, c, cok = b, ca, true
	}
	lo, hi, _ := intRange(t)
	if cok && c.Sign() < 0 && hi != nil {
		// two's complement of negative constant within type width
		size := new(big.Int).Add(new(big.Int).Sub(hi, lo), big.NewInt(1))
		c = new(big.Int).Add(c, size)
	}
	if !cok && op == token.OR && a.bitMask != nil && b.bitMask != nil && new(big.Int).And(a.bitMask, b.bitMask).Sign() == 0 {
		// (x &^ m) | (y & m) and the like: the operands cannot both have a bit set, so OR is addition
		return &Val{T: fmt.Sprintf("(+ %s %s)", a.T, b.T), Typ: t, bitMask: new(big.Int).Or(a.bitMask, b.bitMask)}
	}
	if cok {
		andt := bitAndConst(x.T, c)
		if op == token.AND_NOT && bok {
			var m *big.Int
			if hi != nil && lo.Sign() == 0 {
				m = new(big.Int).AndNot(hi, c) // bits of the type's width not in c
			}
			return &Val{T: fmt.Sprintf("(- %s %s)", a.T, andt), Typ: t, bitMask: m}
		}
		switch op {
		case token.AND:
			return &Val{T: andt, Typ: t, bitMask: new(big.Int).Set(c)}
		case token.OR:
			return &Val{T: fmt.Sprintf("(- (+ %s %s) %s)", x.T, c.String(), andt), Typ: t}
		case token.XOR:
			return &Val{T: fmt.Sprintf("(- (+ %s %s) (* 2 %s))", x.T, c.String(), andt), Typ: t}
		}
	}
	// symbolic & symbolic: bit decomposition for up to 32-bit unsigned operands
	bits := uint(0)
	if hi != nil && lo.Sign() == 0 {
		bits = uint(hi.BitLen())
	}
	if bits > 0 && bits <= 32 {
		var terms []string
		for i := uint(0); i < bits; i++ {
			p := pow2(i).String()
			ba := fmt.Sprintf("(mod (div %s %s) 2)", a.T, p)
			bb := fmt.Sprintf("(mod (div %s %s) 2)", b.T, p)
			var bit string
			switch op {
			case token.AND:
				bit = fmt.Sprintf("(ite (and (= %s 1) (= %s 1)) %s 0)", ba, bb, p)
			case token.OR:
				bit = fmt.Sprintf("(ite (or (= %s 1) (= %s 1)) %s 0)", ba, bb, p)
			case token.XOR:
				bit = fmt.Sprintf("(ite (distinct %s %s) %s 0)", ba, bb, p)
			case token.AND_NOT:
				bit = fmt.Sprintf("(ite (and (= %s 1) (= %s 0)) %s 0)", ba, bb, p)
			}
			terms = append(terms, bit)
		}
		return &Val{T: "(+ " + strings.Join(terms, " ") + ")", Typ: t}
	}
	// 64-bit symbolic bitwise: uninterpreted with sound bounds
	fv.note("64-bit symbolic bitwise %s abstracted (result arbitrary in type range)", op)
	return fv.havocVal("bitop", t)
}

func (fv *FuncVC) binop(op token.Token, a, b *Val, rt types.Type, pos token.Pos) *Val {
	ot := a.Typ
	if ot == nil {
		ot = b.Typ
	}
	switch op {
	case token.EQL, token.NEQ:
		if ot != nil && isString(ot) {
			fv.strEqSym(a.T, b.T)
		}
		e := fv.equal(a, b)
		if op == token.NEQ {
			e = not(e)
		}
		return &Val{T: e, Typ: rt}
	case token.LSS, token.LEQ, token.GTR, token.GEQ:
		if isString(ot) {
			fv.note("string ordering abstracted")
			return fv.havocVal("strcmp", rt)
		}
		sym := map[token.Token]string{token.LSS: "<", token.LEQ: "<=", token.GTR: ">", token.GEQ: ">="}[op]
		return &Val{T: "(" + sym + " " + a.T + " " + b.T + ")", Typ: rt}
	}
	if isString(rt) && op == token.ADD {
		return fv.strConcat(a, b, rt)
	}
	if isFloat(rt) {
		sym := map[token.Token]string{token.ADD: "+", token.SUB: "-", token.MUL: "*", token.QUO: "/"}[op]
		if sym == "" {
			fv.unsupp("float op %s", op)
			return fv.havocVal("f", rt)
		}
		return &Val{T: "(" + sym + " " + a.T + " " + b.T + ")", Typ: rt}
	}
	if isBool(rt) {
		switch op {
		case token.AND, token.LAND:
			return &Val{T: and(a.T, b.T), Typ: rt}
		case token.OR, token.LOR:
			return &Val{T: or(a.T, b.T), Typ: rt}
		}
	}
	switch op {
	case token.ADD:
		return &Val{T: wrapInt("(+ "+a.T+" "+b.T+")", rt, "add"), Typ: rt}
	case token.SUB:
		return &Val{T: wrapInt("(- "+a.T+" "+b.T+")", rt, "add"), Typ: rt}
	case token.MUL:
		return &Val{T: wrapInt("(* "+a.T+" "+b.T+")", rt, "mul"), Typ: rt}
	case token.QUO:
		fv.safety("div-zero", pos, "(not (= "+b.T+" 0))")
		if isUnsigned(rt) {
			return &Val{T: "(div " + a.T + " " + b.T + ")", Typ: rt}
		}
		return &Val{T: wrapInt("(tdiv "+a.T+" "+b.T+")", rt, "add"), Typ: rt}
	case token.REM:
		fv.safety("div-zero", pos, "(not (= "+b.T+" 0))")
		if isUnsigned(rt) {
			return &Val{T: "(mod " + a.T + " " + b.T + ")", Typ: rt}
		}
		return &Val{T: "(tmod " + a.T + " " + b.T + ")", Typ: rt}
	case token.AND, token.OR, token.XOR, token.AND_NOT:
		return fv.bitwise(op, a, b, rt)
	case token.SHL, token.SHR:
		c, ok := constOf(b)
		if !ok || c.Sign() < 0 || c.BitLen() > 8 {
			// symbolic shift: case split for small widths
			lo, hi, rok := intRange(rt)
			if rok {
				bits := hi.BitLen()
				if lo.Sign() < 0 {
					bits++
				}
				t := "0"
				if op == token.SHR && lo.Sign() < 0 {
					t = "(ite (< " + a.T + " 0) (- 1) 0)"
				}
				for k := bits - 1; k >= 0; k-- {
					var sh string
					if op == token.SHL {
						sh = wrapInt(fmt.Sprintf("(* %s %s)", a.T, pow2(uint(k)).String()), rt, "mul")
					} else {
						sh = fmt.Sprintf("(div %s %s)", a.T, pow2(uint(k)).String())
					}
					t = fmt.Sprintf("(ite (= %s %d) %s %s)", b.T, k, sh, t)
				}
				if !isUnsigned(b.Typ) {
					fv.safety("neg-shift", pos, "(>= "+b.T+" 0)")
				}
				return &Val{T: fv.name("shift", "Int", t), Typ: rt}
			}
			fv.unsupp("symbolic shift")
			return fv.havocVal("sh", rt)
		}
		k := uint(c.Uint64())
		if op == token.SHL {
			return &Val{T: wrapInt(fmt.Sprintf("(* %s %s)", a.T, pow2(k).String()), rt, "mul"), Typ: rt}
		}
		return &Val{T: fmt.Sprintf("(div %s %s)", a.T, pow2(k).String()), Typ: rt}
	}
	fv.unsupp("binop %s", op)
	return fv.havocVal("u", rt)
}

// equal returns the SMT equality of two Go values of the same type.
func (fv *FuncVC) equal(a, b *Val) string {
	t := a.Typ
	if t == nil || isUntypedNil(t) {
		t = b.Typ
	}
	if t != nil {
		switch t.Underlying().(type) {
		case *types.Slice:
			// only comparison with nil is legal
			if isNilTerm(b.T) {
				return "(= (s.arr " + a.T + ") 0)"
			}
			if isNilTerm(a.T) {
				return "(= (s.arr " + b.T + ") 0)"
			}
		case *types.Interface:
			if isNilTerm(b.T) {
				return "(= (i.typ " + a.T + ") 0)"
			}
			if isNilTerm(a.T) {
				return "(= (i.typ " + b.T + ") 0)"
			}
		}
	}
	// string compared with a constant: content equality (extensionality instance, quantifier-free)
	if t != nil && isString(t) {
		x, c := a.T, b.T
		s, ok := fv.g.strConstValue(c)
		if !ok {
			x, c = b.T, a.T
			s, ok = fv.g.strConstValue(c)
		}
		if ok && x != c {
			if strings.Contains(x, "q!") && len(s) <= 64 {
				// under a quantifier: use content equality directly
				return strContentEq(x, s)
			}
			fv.strEqConst(x, c, s)
		}
	}
	return eq(a.T, b.T)
}

// strEqSym emits the extensionality instance for a code-level comparison of two non-constant strings:
// (a = b) <=> same length and same bytes.
func (fv *FuncVC) strEqSym(a, b string) {
	if a == b || strings.Contains(a, "q!") || strings.Contains(b, "q!") {
		return
	}
	if _, ok := fv.g.strConstValue(a); ok {
		return
	}
	if _, ok := fv.g.strConstValue(b); ok {
		return
	}
	key := a + "==" + b
	if fv.strEqDone == nil {
		fv.strEqDone = map[string]bool{}
	}
	if fv.strEqDone[key] {
		return
	}
	fv.strEqDone[key] = true
	fv.emit(fmt.Sprintf("(assert (= (= %s %s) (and (= (slen %s) (slen %s)) (forall ((i Int)) (! (=> (and (<= 0 i) (< i (slen %s))) (= (sat %s i) (sat %s i))) :pattern ((sat %s i)) :pattern ((sat %s i)))))))",
		a, b, a, b, a, a, b, a, b))
}

func strContentEq(x, s string) string {
	parts := []string{fmt.Sprintf("(= (slen %s) %d)", x, len(s))}
	for i := 0; i < len(s); i++ {
		parts = append(parts, fmt.Sprintf("(= (sat %s %d) %d)", x, i, s[i]))
	}
	return and(parts...)
}

func (g *Gen) strConstValue(term string) (string, bool) {
	if term == "str!empty" {
		return "", true
	}
	for s, n := range g.strConsts {
		if n == term {
			return s, true
		}
	}
	return "", false
}

// strEqConst emits: (x = c) <=> (len x = len c and bytes agree); valid by string extensionality.
func (fv *FuncVC) strEqConst(x, c, s string) {
	if len(s) > 64 {
		return
	}
	if _, isConst := fv.g.strConstValue(x); isConst {
		return
	}
	key := x + "=" + c
	if fv.strEqDone == nil {
		fv.strEqDone = map[string]bool{}
	}
	if fv.strEqDone[key] {
		return
	}
	fv.strEqDone[key] = true
	parts := []string{fmt.Sprintf("(= (slen %s) %d)", x, len(s))}
	for i := 0; i < len(s); i++ {
		parts = append(parts, fmt.Sprintf("(= (sat %s %d) %d)", x, i, s[i]))
	}
	fv.emit(fmt.Sprintf("(assert (= (= %s %s) %s))", x, c, and(parts...)))
}

func isUntypedNil(t types.Type) bool {
	b, ok := t.(*types.Basic)
	return ok && b.Kind() == types.UntypedNil
}

func isNilTerm(s string) bool { return s == "(mk-slice 0 0 0 0)" || s == "(mk-iface 0 0)" }

func (fv *FuncVC) strConcat(a, b *Val, rt types.Type) *Val {
	if a.T == "str!empty" {
		return b
	}
	if b.T == "str!empty" {
		return a
	}
	fv.g.declareGlobal("sconcat", "(declare-fun sconcat (Str Str) Str)")
	r := fv.fresh("cat", "Str")
	fv.emit(fmt.Sprintf("(assert (= %s (sconcat %s %s)))", r, a.T, b.T))
	fv.emit(fmt.Sprintf("(assert (= (slen %s) (+ (slen %s) (slen %s))))", r, a.T, b.T))
	fv.emit(fmt.Sprintf("(assert (forall ((i Int)) (! (=> (and (<= 0 i) (< i (slen %s))) (= (sat %s i) (ite (< i (slen %s)) (sat %s i) (sat %s (- i (slen %s)))))) :pattern ((sat %s i)))))",
		r, r, a.T, a.T, b.T, a.T, r))
	return &Val{T: r, Typ: rt}
}

// ---------- conversions ----------

func (fv *FuncVC) convert(v *Val, to types.Type, pos token.Pos) *Val {
	from := v.Typ
	switch {
	case isInteger(to) && from != nil && isInteger(from):
		lo, hi, ok := intRange(to)
		flo, fhi, fok := intRange(from)
		if ok && fok && flo.Cmp(lo) >= 0 && fhi.Cmp(hi) <= 0 {
			return &Val{T: v.T, Typ: to} // widening
		}
		if c, cok := constOf(v); cok && ok && c.Cmp(lo) >= 0 && c.Cmp(hi) <= 0 {
			return &Val{T: v.T, Typ: to}
		}
		if ok && fok {
			// same-width (or nearly) conversion: the operand is at most one period away from the target
			// range, so a single conditional wrap is exact and avoids (mod x 2^64)
			size := new(big.Int).Add(new(big.Int).Sub(hi, lo), big.NewInt(1))
			if fhi.Cmp(new(big.Int).Add(hi, size)) <= 0 && flo.Cmp(new(big.Int).Sub(lo, size)) >= 0 {
				return &Val{T: fv.name("cv", "Int", wrapInt(v.T, to, "add")), Typ: to}
			}
		}
		return &Val{T: fv.name("cv", "Int", wrapInt(v.T, to, "mod")), Typ: to}
	case isFloat(to) && from != nil && isInteger(from):
		return &Val{T: "(to_real " + v.T + ")", Typ: to}
	case isFloat(to) && from != nil && isFloat(from):
		return &Val{T: v.T, Typ: to}
	case isInteger(to) && from != nil && isFloat(from):
		// truncation toward zero; out-of-range is implementation-defined: value arbitrary then
		r := fv.havocVal("f2i", to)
		lo, hi, _ := intRange(to)
		tr := fmt.Sprintf("(ite (>= %s 0.0) (to_int %s) (- (to_int (- %s))))", v.T, v.T, v.T)
		fv.assume(fmt.Sprintf("(=> (and (<= %s %s) (<= %s %s)) (= %s %s))", intLit(lo), tr, tr, intLit(hi), r.T, tr))
		return r
	case isString(to) && from != nil && isString(from):
		return &Val{T: v.T, Typ: to}
	case isString(to):
		if sl, ok := from.Underlying().(*types.Slice); ok && isByteType(sl.Elem()) {
			return fv.bytesToString(v, to)
		}
		fv.note("conversion %s -> string abstracted", from)
		return fv.havocVal("tostr", to)
	}
	if sl, ok := to.Underlying().(*types.Slice); ok && from != nil && isString(from) && isByteType(sl.Elem()) {
		return fv.stringToBytes(v, to)
	}
	if fv.sortOf(to) == fv.sortOf(from) {
		return &Val{T: v.T, Typ: to, Place: v.Place}
	}
	fv.unsupp("conversion %s -> %s", from, to)
	return fv.havocVal("conv", to)
}

func isByteType(t types.Type) bool {
	b, ok := t.Underlying().(*types.Basic)
	return ok && (b.Kind() == types.Uint8)
}

func (fv *FuncVC) bytesToString(v *Val, to types.Type) *Val {
	r := fv.fresh("b2s", "Str")
	hn, hs := fv.g.elemHeap(types.Typ[types.Uint8])
	h := fv.heapGet(hn, hs)
	fv.emit(fmt.Sprintf("(assert (= (slen %s) (s.len %s)))", r, v.T))
	fv.emit(fmt.Sprintf("(assert (forall ((i Int)) (! (=> (and (<= 0 i) (< i (s.len %s))) (= (sat %s i) (select (select %s (s.arr %s)) (+ (s.off %s) i)))) :pattern ((sat %s i)))))",
		v.T, r, h, v.T, v.T, r))
	return &Val{T: r, Typ: to}
}

func (fv *FuncVC) stringToBytes(v *Val, to types.Type) *Val {
	ref := fv.allocRef()
	hn, hs := fv.g.elemHeap(types.Typ[types.Uint8])
	h := fv.heapGet(hn, hs)
	arr := fv.fresh("s2b", "(Array Int Int)")
	fv.emit(fmt.Sprintf("(assert (forall ((i Int)) (! (=> (and (<= 0 i) (< i (slen %s))) (= (select %s i) (sat %s i))) :pattern ((select %s i)))))", v.T, arr, v.T, arr))
	fv.heapSet(hn, hs, "(store "+h+" "+ref+" "+arr+")")
	if gt, ok := fv.g.spec.Ghosts["bsrc"]; ok {
		// ghost bsrc[a]: the string the fresh byte array a was converted from (used by the assumed contract of
		// hash.Hash.Write for the idiom h.Write([]byte(s)); meaningful while a is not written to)
		if t := fv.g.resolveType(gt); t != nil {
			gs := fv.sortOf(t)
			fv.heapSet("GH$bsrc", gs, "(store "+fv.heapGet("GH$bsrc", gs)+" "+ref+" "+v.T+")")
		}
	}
	return &Val{T: fmt.Sprintf("(mk-slice %s 0 (slen %s) (slen %s))", ref, v.T, v.T), Typ: to}
}

// ---------- indexing ----------

func (fv *FuncVC) execIndexAddr(x *ssa.IndexAddr) {
	base := fv.val(x.X)
	idx := fv.val(x.Index)
	switch bt := x.X.Type().Underlying().(type) {
	case *types.Slice:
		fv.safety("index", x.Pos(), fmt.Sprintf("(and (<= 0 %s) (< %s (s.len %s)))", idx.T, idx.T, base.T))
		et := bt.Elem()
		abs := fv.name("ix", "Int", "(+ (s.off "+base.T+") "+idx.T+")")
		fv.setReg(x, &Val{T: "0", Typ: x.Type(), Place: &Place{Kind: PElem, Ref: "(s.arr " + base.T + ")", Idx: abs, Root: et, Typ: et}})
	case *types.Pointer:
		at := bt.Elem().Underlying().(*types.Array)
		fv.nonNil(base, x.Pos())
		fv.safety("index", x.Pos(), fmt.Sprintf("(and (<= 0 %s) (< %s %d))", idx.T, idx.T, at.Len()))
		p := fv.placeFromPointer(base)
		np := *p
		np.Path = append(append([]pathStep{}, p.Path...), pathStep{field: -1, idx: idx.T, typ: p.Typ})
		np.Typ = at.Elem()
		fv.setReg(x, &Val{T: "0", Typ: x.Type(), Place: &np})
	default:
		fv.unsupp("IndexAddr on %s", x.X.Type())
		fv.setReg(x, fv.havocVal("u", x.Type()))
	}
}

func (fv *FuncVC) execIndex(x *ssa.Index) {
	base := fv.val(x.X)
	idx := fv.val(x.Index)
	switch bt := x.X.Type().Underlying().(type) {
	case *types.Basic: // string
		fv.safety("index", x.Pos(), fmt.Sprintf("(and (<= 0 %s) (< %s (slen %s)))", idx.T, idx.T, base.T))
		t := "(sat " + base.T + " " + idx.T + ")"
		fv.emit(fmt.Sprintf("(assert (and (<= 0 %s) (<= %s 255)))", t, t))
		fv.setReg(x, &Val{T: t, Typ: x.Type()})
	case *types.Array:
		fv.safety("index", x.Pos(), fmt.Sprintf("(and (<= 0 %s) (< %s %d))", idx.T, idx.T, bt.Len()))
		t := "(select " + base.T + " " + idx.T + ")"
		fv.assumeType(t, x.Type())
		fv.setReg(x, &Val{T: t, Typ: x.Type()})
	default:
		fv.unsupp("Index on %s", x.X.Type())
		fv.setReg(x, fv.havocVal("u", x.Type()))
	}
}

func (fv *FuncVC) execSlice(x *ssa.Slice) {
	base := fv.val(x.X)
	var lo, hi, max string
	if x.Low != nil {
		lo = fv.val(x.Low).T
	} else {
		lo = "0"
	}
	switch bt := x.X.Type().Underlying().(type) {
	case *types.Basic: // string
		if x.High != nil {
			hi = fv.val(x.High).T
		} else {
			hi = "(slen " + base.T + ")"
		}
		fv.safety("slice", x.Pos(), fmt.Sprintf("(and (<= 0 %s) (<= %s %s) (<= %s (slen %s)))", lo, lo, hi, hi, base.T))
		fv.setReg(x, fv.substr(base, lo, hi, x.Type()))
	case *types.Slice:
		if x.High != nil {
			hi = fv.val(x.High).T
		} else {
			hi = "(s.len " + base.T + ")"
		}
		if x.Max != nil {
			max = fv.val(x.Max).T
		} else {
			max = "(s.cap " + base.T + ")"
		}
		fv.safety("slice", x.Pos(), fmt.Sprintf("(and (<= 0 %s) (<= %s %s) (<= %s %s) (<= %s (s.cap %s)))", lo, lo, hi, hi, max, max, base.T))
		t := fmt.Sprintf("(mk-slice (s.arr %s) (+ (s.off %s) %s) (- %s %s) (- %s %s))", base.T, base.T, lo, hi, lo, max, lo)
		fv.setReg(x, &Val{T: fv.name("sl", "Slice", t), Typ: x.Type()})
	case *types.Pointer: // *array
		at := bt.Elem().Underlying().(*types.Array)
		n := fmt.Sprintf("%d", at.Len())
		if x.High != nil {
			hi = fv.val(x.High).T
		} else {
			hi = n
		}
		if x.Max != nil {
			max = fv.val(x.Max).T
		} else {
			max = n
		}
		fv.safety("slice", x.Pos(), fmt.Sprintf("(and (<= 0 %s) (<= %s %s) (<= %s %s) (<= %s %s))", lo, lo, hi, hi, max, max, n))
		// snapshot model: fresh array object initialised from the array value; written back on E$ changes
		p := fv.placeFromPointer(base)
		av := fv.loadPlace(fv.cur, p)
		ref := fv.allocRef()
		hn, hs := fv.g.elemHeap(at.Elem())
		h := fv.heapGet(hn, hs)
		fv.heapSet(hn, hs, "(store "+h+" "+ref+" "+av.T+")")
		fv.arrSnaps = append(fv.arrSnaps, &arrSnap{heap: hn, ref: ref, place: p, guard: fv.pc})
		t := fmt.Sprintf("(mk-slice %s %s (- %s %s) (- %s %s))", ref, lo, hi, lo, max, lo)
		fv.setReg(x, &Val{T: fv.name("sl", "Slice", t), Typ: x.Type()})
	default:
		fv.unsupp("Slice on %s", x.X.Type())
		fv.setReg(x, fv.havocVal("u", x.Type()))
	}
}

type arrSnap struct {
	heap  string
	ref   string
	place *Place
	guard string
}

// syncArrSnaps writes back array snapshots after the element heap changed through a call.
func (fv *FuncVC) syncArrSnaps(heap string) {
	for _, s := range fv.arrSnaps {
		if s.heap != heap {
			continue
		}
		hs := fv.heapSort[heap]
		h := fv.heapGet(heap, hs)
		cur := fv.loadPlace(fv.cur, s.place)
		nv := ite(s.guard, "(select "+h+" "+s.ref+")", cur.T)
		fv.storePlace(s.place, &Val{T: nv, Typ: s.place.Typ})
	}
}

func (fv *FuncVC) substr(base *Val, lo, hi string, t types.Type) *Val {
	if lo == "0" && hi == "(slen "+base.T+")" {
		return &Val{T: base.T, Typ: t}
	}
	fv.g.declareGlobal("ssub", "(declare-fun ssub (Str Int Int) Str)")
	r := fv.fresh("sub", "Str")
	fv.emit(fmt.Sprintf("(assert (= %s (ssub %s %s %s)))", r, base.T, lo, hi))
	fv.assume(fmt.Sprintf("(= (slen %s) (- %s %s))", r, hi, lo))
	fv.emit(fmt.Sprintf("(assert (forall ((i Int)) (! (=> (and (<= 0 i) (< i (slen %s))) (= (sat %s i) (sat %s (+ i %s)))) :pattern ((sat %s i)))))", r, r, base.T, lo, r))
	fv.emit(fmt.Sprintf("(assert (>= (slen %s) 0))", r))
	return &Val{T: r, Typ: t}
}

func (fv *FuncVC) execMakeSlice(x *ssa.MakeSlice) {
	ln := fv.val(x.Len)
	cp := fv.val(x.Cap)
	fv.safety("make-neg", x.Pos(), fmt.Sprintf("(and (<= 0 %s) (<= %s %s))", ln.T, ln.T, cp.T))
	et := x.Type().Underlying().(*types.Slice).Elem()
	fv.allocSizes = append(fv.allocSizes, allocSite{pos: fv.posStr(x.Pos()), size: cp.T, elem: et, pc: fv.pc, prefix: len(fv.lines)})
	ref := fv.allocRef()
	hn, hs := fv.g.elemHeap(et)
	h := fv.heapGet(hn, hs)
	zero := fmt.Sprintf("((as const (Array Int %s)) %s)", fv.sortOf(et), fv.g.sorts.zero(et))
	if zt := fv.g.sorts.zero(et); strings.Contains(zt, "str!") {
		// cvc5 accepts only a value under 'as const'; the zero of a string-bearing element type mentions the
		// uninterpreted constant str!empty, so the zeroed array is a fresh constant with a triggered axiom
		za := fv.fresh("zarr", fmt.Sprintf("(Array Int %s)", fv.sortOf(et)))
		fv.emit(fmt.Sprintf("(assert (forall ((zi Int)) (! (= (select %s zi) %s) :pattern ((select %s zi)))))", za, zt, za))
		zero = za
	}
	fv.heapSet(hn, hs, "(store "+h+" "+ref+" "+zero+")")
	fv.setReg(x, &Val{T: fv.name("mk", "Slice", fmt.Sprintf("(mk-slice %s 0 %s %s)", ref, ln.T, cp.T)), Typ: x.Type()})
}

type allocSite struct {
	pos    string
	size   string
	elem   types.Type
	pc     string
	prefix int
}

// ---------- maps ----------

func (fv *FuncVC) mapParts(mt *types.Map) (dn, vn, cn, ds, vs string) {
	dn, vn, cn, ks, es := fv.g.mapHeaps(mt)
	ds = "(Array Int (Array " + ks + " Bool))"
	vs = "(Array Int (Array " + ks + " " + es + "))"
	return
}

func (fv *FuncVC) execMakeMap(x *ssa.MakeMap) {
	mt := x.Type().Underlying().(*types.Map)
	ref := fv.allocRef()
	dn, _, cn, ds, _ := fv.mapParts(mt)
	ks := fv.sortOf(mt.Key())
	d := fv.heapGet(dn, ds)
	fv.heapSet(dn, ds, fmt.Sprintf("(store %s %s ((as const (Array %s Bool)) false))", d, ref, ks))
	c := fv.heapGet(cn, "(Array Int Int)")
	fv.heapSet(cn, "(Array Int Int)", "(store "+c+" "+ref+" 0)")
	fv.setReg(x, &Val{T: ref, Typ: x.Type()})
}

func (fv *FuncVC) execMapUpdate(x *ssa.MapUpdate) {
	m := fv.val(x.Map)
	k := fv.val(x.Key)
	v := fv.val(x.Value)
	mt := x.Map.Type().Underlying().(*types.Map)
	fv.safety("nil-map", x.Pos(), "(not (= "+m.T+" 0))")
	fv.mapStore(m.T, k.T, v.T, mt)
}

func (fv *FuncVC) mapStore(m, k, v string, mt *types.Map) {
	dn, vn, cn, ds, vs := fv.mapParts(mt)
	d := fv.heapGet(dn, ds)
	vh := fv.heapGet(vn, vs)
	c := fv.heapGet(cn, "(Array Int Int)")
	present := "(select (select " + d + " " + m + ") " + k + ")"
	fv.heapSet(cn, "(Array Int Int)", fmt.Sprintf("(store %s %s (ite %s (select %s %s) (+ (select %s %s) 1)))", c, m, present, c, m, c, m))
	fv.heapSet(dn, ds, fmt.Sprintf("(store %s %s (store (select %s %s) %s true))", d, m, d, m, k))
	fv.heapSet(vn, vs, fmt.Sprintf("(store %s %s (store (select %s %s) %s %s))", vh, m, vh, m, k, v))
}

func (fv *FuncVC) mapDelete(m, k string, mt *types.Map) {
	dn, _, cn, ds, _ := fv.mapParts(mt)
	d := fv.heapGet(dn, ds)
	c := fv.heapGet(cn, "(Array Int Int)")
	present := "(select (select " + d + " " + m + ") " + k + ")"
	// delete on nil map is a no-op
	fv.heapSet(cn, "(Array Int Int)", fmt.Sprintf("(ite (= %s 0) %s (store %s %s (ite %s (- (select %s %s) 1) (select %s %s))))", m, c, c, m, present, c, m, c, m))
	fv.heapSet(dn, ds, fmt.Sprintf("(ite (= %s 0) %s (store %s %s (store (select %s %s) %s false)))", m, d, d, m, d, m, k))
}

func (fv *FuncVC) mapCardFacts(m string, mt *types.Map) {
	fv.mapCardFactsAt(fv.cur, m, mt)
}

// mapCardFactsAt: the cardinality of a map is non-negative and is zero exactly when its domain is empty
// (true of every Go map; the model tracks the cardinality by +-1 updates).
func (fv *FuncVC) mapCardFactsAt(st *State, m string, mt *types.Map) {
	if strings.Contains(m, "q!") {
		return
	}
	dn, _, cn, ds, _ := fv.mapParts(mt)
	c := fv.heapAt(st, cn, "(Array Int Int)")
	d := fv.heapAt(st, dn, ds)
	key := c + "|" + d + "|" + m
	if fv.cardDone == nil {
		fv.cardDone = map[string]bool{}
	}
	if fv.cardDone[key] {
		return
	}
	fv.cardDone[key] = true
	ks := fv.sortOf(mt.Key())
	fv.emit(fmt.Sprintf("(assert (>= (select %s %s) 0))", c, m))
	// keys outside the key type's range are not keys (the domain array is indexed by mathematical integers)
	fv.emit(fmt.Sprintf("(assert (= (= (select %s %s) 0) (forall ((ck %s)) (! (=> %s (not (select (select %s %s) ck))) :pattern ((select (select %s %s) ck))))))", c, m, ks, fv.typeFactsNoAlloc("ck", mt.Key()), d, m, d, m))
}

func (fv *FuncVC) execLookup(x *ssa.Lookup) {
	if _, ok := x.X.Type().Underlying().(*types.Map); !ok {
		// string index with commaok? not possible; string lookup s[i]
		base := fv.val(x.X)
		idx := fv.val(x.Index)
		fv.safety("index", x.Pos(), fmt.Sprintf("(and (<= 0 %s) (< %s (slen %s)))", idx.T, idx.T, base.T))
		t := "(sat " + base.T + " " + idx.T + ")"
		fv.emit(fmt.Sprintf("(assert (and (<= 0 %s) (<= %s 255)))", t, t))
		fv.setReg(x, &Val{T: t, Typ: x.Type()})
		return
	}
	m := fv.val(x.X)
	k := fv.val(x.Index)
	mt := x.X.Type().Underlying().(*types.Map)
	dn, vn, _, ds, vs := fv.mapParts(mt)
	d := fv.heapGet(dn, ds)
	vh := fv.heapGet(vn, vs)
	present := fv.name("mhas", "Bool", fmt.Sprintf("(and (not (= %s 0)) (select (select %s %s) %s))", m.T, d, m.T, k.T))
	raw := fmt.Sprintf("(select (select %s %s) %s)", vh, m.T, k.T)
	val := fv.name("mval", fv.sortOf(mt.Elem()), ite(present, raw, fv.g.sorts.zero(mt.Elem())))
	fv.assumeType(val, mt.Elem())
	fv.mapCardFacts(m.T, mt)
	if x.CommaOk {
		fv.setReg(x, &Val{Typ: x.Type(), Tuple: []*Val{{T: val, Typ: mt.Elem()}, {T: present, Typ: types.Typ[types.Bool]}}})
	} else {
		fv.setReg(x, &Val{T: val, Typ: x.Type()})
	}
}

func (fv *FuncVC) execRange(x *ssa.Range) {
	mt, ok := x.X.Type().Underlying().(*types.Map)
	if !ok {
		fv.unsupp("range over %s", x.X.Type())
		fv.setReg(x, &Val{T: "0", Typ: x.Type()})
		return
	}
	ks := fv.sortOf(mt.Key())
	name := fmt.Sprintf("VIS$%s$%d", sanitize(fv.key), len(fv.mapIters))
	sort := "(Array " + ks + " Bool)"
	fv.heapGet(name, sort)
	fv.heapSet(name, sort, fmt.Sprintf("((as const %s) false)", sort))
	fv.mapIters[x] = &mapIter{m: fv.val(x.X), visited: name, ksort: ks}
	fv.setReg(x, &Val{T: "0", Typ: x.Type()})
}

func (fv *FuncVC) execNext(x *ssa.Next) {
	rng, _ := x.Iter.(*ssa.Range)
	it := fv.mapIters[rng]
	if it == nil {
		fv.unsupp("Next on non-map iterator")
		fv.setReg(x, fv.havocVal("next", x.Type()))
		return
	}
	mt := rng.X.Type().Underlying().(*types.Map)
	dn, vn, _, ds, vs := fv.mapParts(mt)
	d := fv.heapGet(dn, ds)
	vh := fv.heapGet(vn, vs)
	sort := "(Array " + it.ksort + " Bool)"
	vis := fv.heapGet(it.visited, sort)
	ok := fv.fresh("nxt.ok", "Bool")
	k := fv.havocVal("nxt.k", mt.Key())
	m := it.m.T
	// ok => k in dom, k not visited ; !ok => every key in dom is visited
	fv.assume(fmt.Sprintf("(=> %s (and (not (= %s 0)) (select (select %s %s) %s) (not (select %s %s))))", ok, m, d, m, k.T, vis, k.T))
	fv.assume(fmt.Sprintf("(=> (not %s) (forall ((kk %s)) (! (=> (and %s (not (= %s 0)) (select (select %s %s) kk)) (select %s kk)) :pattern ((select (select %s %s) kk)) :pattern ((select %s kk)))))",
		ok, it.ksort, fv.typeFactsNoAlloc("kk", mt.Key()), m, d, m, vis, d, m, vis))
	fv.heapSet(it.visited, sort, fmt.Sprintf("(ite %s (store %s %s true) %s)", ok, vis, k.T, vis))
	v := fv.name("nxt.v", fv.sortOf(mt.Elem()), fmt.Sprintf("(select (select %s %s) %s)", vh, m, k.T))
	fv.assumeType(v, mt.Elem())
	fv.setReg(x, &Val{Typ: x.Type(), Tuple: []*Val{{T: ok, Typ: types.Typ[types.Bool]}, k, {T: v, Typ: mt.Elem()}}})
}

// ---------- interfaces ----------

func (fv *FuncVC) box(v *Val, t types.Type) string {
	s := fv.sortOf(t)
	if s == "Int" {
		return v.T
	}
	name := "box$" + sanitize(s)
	fv.g.declareGlobal(name, fmt.Sprintf("(declare-fun %s (%s) Int)", name, s))
	un := "unbox$" + sanitize(s)
	fv.g.declareGlobal(un, fmt.Sprintf("(declare-fun %s (Int) %s)", un, s))
	b := "(" + name + " " + v.T + ")"
	fv.emit(fmt.Sprintf("(assert (= (%s %s) %s))", un, b, v.T))
	return b
}

func (fv *FuncVC) unbox(term string, t types.Type) string {
	s := fv.sortOf(t)
	if s == "Int" {
		return term
	}
	un := "unbox$" + sanitize(s)
	fv.g.declareGlobal(un, fmt.Sprintf("(declare-fun %s (Int) %s)", un, s))
	name := "box$" + sanitize(s)
	fv.g.declareGlobal(name, fmt.Sprintf("(declare-fun %s (%s) Int)", name, s))
	return "(" + un + " " + term + ")"
}

func (fv *FuncVC) execMakeInterface(x *ssa.MakeInterface) {
	v := fv.val(x.X)
	tid := fv.g.sorts.typeID(x.X.Type())
	val := v.T
	if v.Place != nil {
		val = fv.placeToValue(v.Place, x.X.Type())
		if v.Place.Kind != PHeap || !isOpaqueAddrType(v.Place.Typ) {
			fv.unsupp("address of a field/element boxed in an interface: writes through it are not tracked (%s)", fv.posStr(x.Pos()))
		}
	}
	b := fv.box(&Val{T: val, Typ: x.X.Type()}, x.X.Type())
	fv.setReg(x, &Val{T: fmt.Sprintf("(mk-iface %d %s)", tid, b), Typ: x.Type()})
}

// isOpaqueAddrType: struct types from sync, sync/atomic, bytes... whose address is used for identity only.
func isOpaqueAddrType(t types.Type) bool {
	if n, ok := t.(*types.Named); ok && n.Obj().Pkg() != nil {
		switch n.Obj().Pkg().Path() {
		case "sync", "sync/atomic", "bytes", "strings", "time":
			return true
		}
	}
	return false
}

func (fv *FuncVC) execTypeAssert(x *ssa.TypeAssert) {
	v := fv.val(x.X)
	var ok, val string
	if types.IsInterface(x.AssertedType) {
		// dynamic type implements asserted interface: abstract predicate on the type id
		name := "impl$" + sanitize(typeKey(x.AssertedType))
		fv.g.declareGlobal(name, fmt.Sprintf("(declare-fun %s (Int) Bool)", name))
		ok = fmt.Sprintf("(and (not (= (i.typ %s) 0)) (%s (i.typ %s)))", v.T, name, v.T)
		// statically known implementers
		val = v.T
	} else {
		tid := fv.g.sorts.typeID(x.AssertedType)
		ok = fmt.Sprintf("(= (i.typ %s) %d)", v.T, tid)
		val = fv.unbox("(i.val "+v.T+")", x.AssertedType)
	}
	okn := fv.name("ta.ok", "Bool", ok)
	if x.CommaOk {
		zero := fv.g.sorts.zero(x.AssertedType)
		r := fv.name("ta.v", fv.sortOf(x.AssertedType), ite(okn, val, zero))
		fv.assumeType(r, x.AssertedType)
		fv.setReg(x, &Val{Typ: x.Type(), Tuple: []*Val{{T: r, Typ: x.AssertedType}, {T: okn, Typ: types.Typ[types.Bool]}}})
		return
	}
	fv.safety("type-assert", x.Pos(), okn)
	r := fv.name("ta.v", fv.sortOf(x.AssertedType), val)
	fv.assumeType(r, x.AssertedType)
	fv.setReg(x, &Val{T: r, Typ: x.Type()})
}
