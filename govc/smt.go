package main

// smt.go: SMT-LIB term helpers, sorts, declarations.

import (
	"fmt"
	"go/constant"
	"go/types"
	"math/big"
	"regexp"
	"sort"
	"strings"
)

// Val is a symbolic Go value: an SMT term plus its Go type.
// Tuple values (multi-result calls) carry components in Tuple.
// Pointer values that designate a sub-location which has no first-class
// SMT representation (address of a field, element, local cell) carry Place.
type Val struct {
	T     string
	Typ   types.Type
	Tuple []*Val
	Place *Place
	// Closure info when the value is a MakeClosure result / function constant
	Fn interface{} // *ssa.Function
	Bind []*Val
	mapKey types.Type
	bitMask *big.Int // when non-nil: every bit outside this mask is known to be zero (set by x&c, x&^c; used for disjoint |)
}

func sanitize(s string) string {
	var b strings.Builder
	for _, r := range s {
		switch {
		case r >= 'a' && r <= 'z', r >= 'A' && r <= 'Z', r >= '0' && r <= '9', r == '_', r == '$', r == '.':
			b.WriteRune(r)
		case r == '/':
			b.WriteRune('.')
		case r == '*':
			b.WriteString("P.")
		case r == '[':
			b.WriteString("L.")
		case r == ']':
			b.WriteString(".R")
		case r == ' ', r == ',', r == '(', r == ')', r == '{', r == '}', r == ';':
			b.WriteRune('_')
		default:
			b.WriteString(fmt.Sprintf("u%x", r))
		}
	}
	return b.String()
}

func and(xs ...string) string {
	var ys []string
	for _, x := range xs {
		if x == "true" || x == "" {
			continue
		}
		if x == "false" {
			return "false"
		}
		ys = append(ys, x)
	}
	switch len(ys) {
	case 0:
		return "true"
	case 1:
		return ys[0]
	}
	return "(and " + strings.Join(ys, " ") + ")"
}

func or(xs ...string) string {
	var ys []string
	for _, x := range xs {
		if x == "false" || x == "" {
			continue
		}
		if x == "true" {
			return "true"
		}
		ys = append(ys, x)
	}
	switch len(ys) {
	case 0:
		return "false"
	case 1:
		return ys[0]
	}
	return "(or " + strings.Join(ys, " ") + ")"
}

func not(x string) string {
	if x == "true" {
		return "false"
	}
	if x == "false" {
		return "true"
	}
	if strings.HasPrefix(x, "(not ") && balancedSingle(x[5:len(x)-1]) {
		return x[5 : len(x)-1]
	}
	return "(not " + x + ")"
}

func balancedSingle(s string) bool {
	// true if s is a single s-expression
	depth := 0
	for i, c := range s {
		switch c {
		case '(':
			depth++
		case ')':
			depth--
			if depth == 0 && i != len(s)-1 {
				return false
			}
			if depth < 0 {
				return false
			}
		case ' ':
			if depth == 0 {
				return false
			}
		}
	}
	return depth == 0
}

func implies(a, b string) string {
	if a == "true" {
		return b
	}
	if b == "true" || a == "false" {
		return "true"
	}
	return "(=> " + a + " " + b + ")"
}

func ite(c, a, b string) string {
	if c == "true" {
		return a
	}
	if c == "false" {
		return b
	}
	if a == b {
		return a
	}
	return "(ite " + c + " " + a + " " + b + ")"
}

func eq(a, b string) string {
	if a == b {
		return "true"
	}
	return "(= " + a + " " + b + ")"
}

func app(f string, args ...string) string {
	if len(args) == 0 {
		return f
	}
	return "(" + f + " " + strings.Join(args, " ") + ")"
}

func intLit(v *big.Int) string {
	if v.Sign() < 0 {
		return "(- " + new(big.Int).Neg(v).String() + ")"
	}
	return v.String()
}

func intLit64(v int64) string { return intLit(big.NewInt(v)) }

func pow2(n uint) *big.Int { return new(big.Int).Lsh(big.NewInt(1), n) }

// intRange returns lo, hi (inclusive) for an integer basic type; ok=false if not integer
func intRange(t types.Type) (lo, hi *big.Int, ok bool) {
	b, isB := t.Underlying().(*types.Basic)
	if !isB {
		return nil, nil, false
	}
	var bits uint
	signed := false
	switch b.Kind() {
	case types.Int8:
		bits, signed = 8, true
	case types.Int16:
		bits, signed = 16, true
	case types.Int32:
		bits, signed = 32, true
	case types.Int64, types.Int:
		bits, signed = 64, true
	case types.Uint8:
		bits = 8
	case types.Uint16:
		bits = 16
	case types.Uint32:
		bits = 32
	case types.Uint64, types.Uint, types.Uintptr:
		bits = 64
	case types.UntypedInt, types.UntypedRune:
		return nil, nil, false
	default:
		return nil, nil, false
	}
	if signed {
		h := pow2(bits - 1)
		return new(big.Int).Neg(h), new(big.Int).Sub(h, big.NewInt(1)), true
	}
	return big.NewInt(0), new(big.Int).Sub(pow2(bits), big.NewInt(1)), true
}

func isInteger(t types.Type) bool {
	b, ok := t.Underlying().(*types.Basic)
	return ok && b.Info()&types.IsInteger != 0
}
func isUnsigned(t types.Type) bool {
	b, ok := t.Underlying().(*types.Basic)
	return ok && b.Info()&types.IsUnsigned != 0
}
func isFloat(t types.Type) bool {
	b, ok := t.Underlying().(*types.Basic)
	return ok && b.Info()&types.IsFloat != 0
}
func isString(t types.Type) bool {
	b, ok := t.Underlying().(*types.Basic)
	return ok && b.Info()&types.IsString != 0
}
func isBool(t types.Type) bool {
	b, ok := t.Underlying().(*types.Basic)
	return ok && b.Info()&types.IsBoolean != 0
}

// wrap normalises a mathematical integer term into the range of type t.
// kind: "add" (at most one overflow either side), "mul"/"any" (mod).
func wrapInt(term string, t types.Type, kind string) string {
	lo, hi, ok := intRange(t)
	if !ok {
		return term
	}
	size := new(big.Int).Add(new(big.Int).Sub(hi, lo), big.NewInt(1))
	if kind == "add" {
		return fmt.Sprintf("(let ((w!x %s)) (ite (> w!x %s) (- w!x %s) (ite (< w!x %s) (+ w!x %s) w!x)))",
			term, intLit(hi), size.String(), intLit(lo), size.String())
	}
	if lo.Sign() == 0 {
		return fmt.Sprintf("(mod %s %s)", term, size.String())
	}
	// signed: ((x - lo) mod size) + lo
	return fmt.Sprintf("(+ (mod (- %s %s) %s) %s)", term, intLit(lo), size.String(), intLit(lo))
}

func constToTerm(c constant.Value, t types.Type) (string, bool) {
	switch c.Kind() {
	case constant.Bool:
		if constant.BoolVal(c) {
			return "true", true
		}
		return "false", true
	case constant.Int:
		bi, ok := new(big.Int).SetString(c.ExactString(), 10)
		if !ok {
			return "", false
		}
		if t != nil && isFloat(t) {
			return realLit(new(big.Rat).SetInt(bi)), true
		}
		return intLit(bi), true
	case constant.Float:
		if t != nil && isInteger(t) {
			if i := constant.ToInt(c); i.Kind() == constant.Int {
				bi, _ := new(big.Int).SetString(i.ExactString(), 10)
				return intLit(bi), true
			}
		}
		r, ok := new(big.Rat).SetString(c.ExactString())
		if !ok {
			f, _ := constant.Float64Val(c)
			r = new(big.Rat).SetFloat64(f)
			if r == nil {
				return "", false
			}
		}
		return realLit(r), true
	}
	return "", false
}

func realLit(r *big.Rat) string {
	neg := r.Sign() < 0
	a := new(big.Rat).Abs(r)
	var s string
	if a.IsInt() {
		s = a.Num().String() + ".0"
	} else {
		s = "(/ " + a.Num().String() + ".0 " + a.Denom().String() + ".0)"
	}
	if neg {
		return "(- " + s + ")"
	}
	return s
}

// ---------- sorts ----------

type structInfo struct {
	sort   string
	fields []*types.Var
	st     *types.Struct
}

type Sorts struct {
	structs   map[string]*structInfo // by sort name
	order     []string               // declaration order (dependency order)
	byType    map[string]string      // types.TypeString -> sort name
	typeIDs   map[string]int
	typeByID  []types.Type
}

func newSorts() *Sorts {
	return &Sorts{structs: map[string]*structInfo{}, byType: map[string]string{}, typeIDs: map[string]int{}}
}

func qualifier(p *types.Package) string {
	if p == nil {
		return ""
	}
	if p.Path() == "github.com/absfs/absnfs" {
		return ""
	}
	return p.Path()
}

var byteRe = regexp.MustCompile(`\bbyte\b`)
var runeRe = regexp.MustCompile(`\brune\b`)

// typeKey is a canonical name of a type (byte and rune are aliases of uint8 and int32).
func typeKey(t types.Type) string {
	s := types.TypeString(t, qualifier)
	if strings.Contains(s, "byte") {
		s = byteRe.ReplaceAllString(s, "uint8")
	}
	if strings.Contains(s, "rune") {
		s = runeRe.ReplaceAllString(s, "int32")
	}
	return s
}

func (s *Sorts) sortOf(t types.Type) string {
	switch u := t.Underlying().(type) {
	case *types.Basic:
		switch {
		case u.Info()&types.IsBoolean != 0:
			return "Bool"
		case u.Info()&types.IsInteger != 0:
			return "Int"
		case u.Info()&types.IsFloat != 0:
			return "Real"
		case u.Info()&types.IsString != 0:
			return "Str"
		case u.Kind() == types.UnsafePointer, u.Kind() == types.UntypedNil:
			return "Int"
		}
		return "Int"
	case *types.Pointer, *types.Map, *types.Chan, *types.Signature:
		return "Int"
	case *types.Slice:
		return "Slice"
	case *types.Interface:
		return "Iface"
	case *types.Array:
		return "(Array Int " + s.sortOf(u.Elem()) + ")"
	case *types.Struct:
		return s.structSort(t, u)
	case *types.Tuple:
		return "Tuple?"
	}
	return "Int"
}

func (s *Sorts) structSort(t types.Type, st *types.Struct) string {
	key := typeKey(t)
	if n, ok := s.byType[key]; ok {
		return n
	}
	var name string
	if named, ok := t.(*types.Named); ok {
		name = "S$" + sanitize(typeKey(named))
	} else if al, ok := t.(*types.Alias); ok {
		return s.structSort(types.Unalias(al), st)
	} else {
		name = fmt.Sprintf("S$anon%d", len(s.byType))
	}
	s.byType[key] = name
	info := &structInfo{sort: name, st: st}
	for i := 0; i < st.NumFields(); i++ {
		f := st.Field(i)
		info.fields = append(info.fields, f)
		s.sortOf(f.Type()) // ensure dependencies declared first
	}
	s.structs[name] = info
	s.order = append(s.order, name)
	return name
}

func fieldAcc(sort string, i int) string { return fmt.Sprintf("%s!%d", sort, i) }

func (s *Sorts) decls() string {
	var b strings.Builder
	for _, name := range s.order {
		info := s.structs[name]
		if len(info.fields) == 0 {
			fmt.Fprintf(&b, "(declare-datatypes ((%s 0)) (((mk!%s))))\n", name, name)
			continue
		}
		fmt.Fprintf(&b, "(declare-datatypes ((%s 0)) (((mk!%s", name, name)
		for i, f := range info.fields {
			fmt.Fprintf(&b, " (%s %s)", fieldAcc(name, i), s.sortOf(f.Type()))
		}
		b.WriteString("))))\n")
	}
	return b.String()
}

func (s *Sorts) typeID(t types.Type) int {
	k := typeKey(t)
	if id, ok := s.typeIDs[k]; ok {
		return id
	}
	id := len(s.typeIDs) + 1
	s.typeIDs[k] = id
	s.typeByID = append(s.typeByID, t)
	return id
}

// zero value term for a type
func (s *Sorts) zero(t types.Type) string {
	switch u := t.Underlying().(type) {
	case *types.Basic:
		switch {
		case u.Info()&types.IsBoolean != 0:
			return "false"
		case u.Info()&types.IsFloat != 0:
			return "0.0"
		case u.Info()&types.IsString != 0:
			return "str!empty"
		}
		return "0"
	case *types.Slice:
		return "(mk-slice 0 0 0 0)"
	case *types.Interface:
		return "(mk-iface 0 0)"
	case *types.Array:
		return fmt.Sprintf("((as const %s) %s)", s.sortOf(t), s.zero(u.Elem()))
	case *types.Struct:
		name := s.structSort(t, u)
		if u.NumFields() == 0 {
			return "mk!" + name
		}
		parts := []string{"mk!" + name}
		for i := 0; i < u.NumFields(); i++ {
			parts = append(parts, s.zero(u.Field(i).Type()))
		}
		return "(" + strings.Join(parts, " ") + ")"
	}
	return "0"
}

const preamble = `(declare-sort Str 0)
(declare-fun slen (Str) Int)
(declare-fun sat (Str Int) Int)
(declare-const str!empty Str)
(assert (= (slen str!empty) 0))
(assert (forall ((s Str)) (! (>= (slen s) 0) :pattern ((slen s)))))
(declare-datatypes ((Slice 0)) (((mk-slice (s.arr Int) (s.off Int) (s.len Int) (s.cap Int)))))
(declare-datatypes ((Iface 0)) (((mk-iface (i.typ Int) (i.val Int)))))
(define-fun tdiv ((a Int) (b Int)) Int (ite (>= a 0) (ite (> b 0) (div a b) (- (div a (- b)))) (ite (> b 0) (- (div (- a) b)) (div (- a) (- b)))))
(define-fun tmod ((a Int) (b Int)) Int (- a (* b (tdiv a b))))
`

func sortedKeys[V any](m map[string]V) []string {
	ks := make([]string, 0, len(m))
	for k := range m {
		ks = append(ks, k)
	}
	sort.Strings(ks)
	return ks
}
