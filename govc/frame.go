package main

// frame.go: frame conditions (at returns and, automatically, as loop invariants).

import (
	"fmt"
	"go/token"
	"go/types"
	"sort"
	"strings"

	"golang.org/x/tools/go/ssa"
)

// frameTargets resolves the contract's modifies clause once, in the entry state.
func (fv *FuncVC) frameTargets() (map[string]modTarget, bool) {
	if fv.frameT != nil {
		return fv.frameT, fv.frameAll
	}
	env := fv.entryEnv()
	fv.frameT = map[string]modTarget{}
	for _, t := range fv.resolveModifies(fv.con, env) {
		fv.frameT[t.heap] = t
		if t.heap == "*" {
			fv.frameAll = true
		}
	}
	return fv.frameT, fv.frameAll
}

func frameSkip(name string) bool {
	return name == "alloc" || name == "LOCK" || strings.HasPrefix(name, "VIS$") || strings.HasPrefix(name, "DF$")
}

// frameFormula returns (checkable goal with a fresh skolem, assumable quantified formula) stating that
// heap `name` with current value cur is unchanged outside the modifies clause on objects allocated at entry.
// ok=false when the heap may change arbitrarily (listed whole).
func (fv *FuncVC) frameFormula(name, cur string) (goal, assume string, ok bool) {
	tmap, all := fv.frameTargets()
	if frameSkip(name) {
		return "", "", false
	}
	if all && !strings.HasPrefix(name, "GH$") {
		// 'everything' covers every program heap, but not ghost state: callers keep ghosts that are not
		// named in the modifies clause, so those are still framed
		return "", "", false
	}
	t, listed := tmap[name]
	if listed && t.whole {
		return "", "", false
	}
	sortS := fv.heapSort[name]
	if !strings.HasPrefix(sortS, "(Array Int ") {
		return eq(cur, name+"@0"), eq(cur, name+"@0"), true
	}
	mk := func(p string) string {
		outside := []string{fmt.Sprintf("(< 0 %s)", p), fmt.Sprintf("(< %s alloc@0)", p)}
		for _, l := range t.locs {
			outside = append(outside, "(not (= "+p+" "+l+"))")
		}
		return implies(and(outside...), eq("(select "+cur+" "+p+")", "(select "+name+"@0 "+p+")"))
	}
	p := fv.fresh("frame.p", "Int")
	goal = mk(p)
	assume = fmt.Sprintf("(forall ((fp Int)) (! %s :pattern ((select %s fp))))", mk("fp"), cur)
	return goal, assume, true
}

func (fv *FuncVC) frameObligations(env *Env, retID string) {
	con := fv.con
	for _, name := range sortedKeys(fv.cur.heaps) {
		cur := fv.cur.heaps[name]
		if cur == name+"@0" {
			continue
		}
		goal, _, ok := fv.frameFormula(name, cur)
		if !ok {
			continue
		}
		fv.oblige("frame", name+"#"+retID, con.Props, goal, "heap "+name+" unchanged outside modifies", "")
	}
}

// loopWrites returns the static write set of the loop with head h.
func (fv *FuncVC) loopWrites(h *ssa.BasicBlock) (map[*ssa.Alloc]bool, map[string]bool) {
	cells := map[*ssa.Alloc]bool{}
	heaps := map[string]bool{}
	var blocks []*ssa.BasicBlock
	for b := range fv.loopBody[h] {
		blocks = append(blocks, b)
	}
	sort.Slice(blocks, func(i, j int) bool { return blocks[i].Index < blocks[j].Index })
	for _, b := range blocks {
		for _, in := range b.Instrs {
			fv.g.instrWrites(fv.fn, in, cells, heaps, fv.direct)
		}
	}
	return cells, heaps
}

// frameInvariantHeaps: heaps for which the frame is maintained as an automatic loop invariant.
func (fv *FuncVC) frameInvariantHeaps(h *ssa.BasicBlock) []string {
	if fv.con == nil || !fv.con.HasMod {
		return nil
	}
	_, heaps := fv.loopWrites(h)
	if heaps["*"] || heaps["?ext"] {
		return nil
	}
	var out []string
	for _, n := range sortedKeys(heaps) {
		if fv.heapSort[n] == "" || frameSkip(n) {
			continue
		}
		out = append(out, n)
	}
	return out
}

func (fv *FuncVC) checkFrameInvariants(h *ssa.BasicBlock, kind string, from *ssa.BasicBlock) {
	for _, name := range fv.frameInvariantHeaps(h) {
		cur := fv.heapGet(name, fv.heapSort[name])
		if cur == name+"@0" {
			continue
		}
		goal, _, ok := fv.frameFormula(name, cur)
		if !ok {
			continue
		}
		fv.oblige(kind, fmt.Sprintf("loop%d#frame:%s#from-b%d", fv.loopOrd[h], name, from.Index), fv.con.Props, goal, "automatic frame invariant for "+name, fv.posStr(fv.loopPos(h)))
	}
}

func (fv *FuncVC) assumeFrameInvariants(h *ssa.BasicBlock) {
	for _, name := range fv.frameInvariantHeaps(h) {
		cur := fv.heapGet(name, fv.heapSort[name])
		if cur == name+"@0" {
			continue
		}
		_, assume, ok := fv.frameFormula(name, cur)
		if ok {
			fv.assume(assume)
		}
	}
}

// bindFreeVars: inside contracts of closures a captured variable's name denotes its current value
// (the SSA free variable itself is a pointer to the captured variable).
func (fv *FuncVC) bindFreeVars(env *Env, st *State) {
	if fv.fn == nil {
		return
	}
	for _, f := range fv.fn.FreeVars {
		pv, ok := fv.params[f.Name()]
		if !ok {
			continue
		}
		env.vars["&"+f.Name()] = pv
		env.vars[f.Name()] = fv.loadPlace(st, fv.placeFromPointer(pv))
	}
}

// callFunctionValue performs a call of a statically known closure (no arguments) from a primitive such
// as sync.Once.Do: its contract if it has one, otherwise havoc of its inferred write set.
func (fv *FuncVC) callFunctionValue(callee *ssa.Function, binds []*Val, pos token.Pos) {
	key := funcKey(callee)
	fv.callOrd[key]++
	if con, ok := fv.g.spec.Contracts[key]; ok {
		var resT types.Type = callee.Signature.Results()
		if callee.Signature.Results().Len() == 1 {
			resT = callee.Signature.Results().At(0).Type()
		}
		fv.applyContract(con, callee, nil, nil, binds, resT, key, fv.callOrd[key], pos)
		return
	}
	fv.uncontracted[key] = true
	fv.havocMod(fv.g.modOf(callee), nil)
}

func (fv *FuncVC) noteLockID(id string) {
	for _, x := range fv.lockIDs {
		if x == id {
			return
		}
	}
	fv.lockIDs = append(fv.lockIDs, id)
}
