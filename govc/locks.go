package main

// locks.go: interference model for lock-protected state (used by lock-discipline checks).

func (fv *FuncVC) havocGuarded(mu *Val, id string) {
	// placeholder: filled in with guarded_by declarations
}
