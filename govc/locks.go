package main

// locks.go: interference model for lock-protected state (used by lock-discipline checks).

import "strings"

func (fv *FuncVC) havocGuarded(mu *Val, id string) {
	// placeholder: filled in with guarded_by declarations
}

// ReacquireRule: "reacquire <lock> : <designators> ; <invariant>" in a function's contract.
// The state named by the designators is protected by the lock. The first acquisition of the lock in the function
// is where the function's view of that state begins; every LATER acquisition (after the function has released the
// lock: an RLock probe followed by a Lock, a lock dropped around a slow call) sees whatever other threads left
// there - the designated state is forgotten and only the invariant is known again. A decision taken under the
// earlier critical section and not re-validated under the new one therefore cannot carry a proof.
type ReacquireRule struct {
	LockSrc string
	Mods    []string
	Inv     *Clause
	File    string
	Line    int
}

func (fv *FuncVC) reacquire(id string) {
	if fv.con == nil || len(fv.con.Reacquire) == 0 {
		return
	}
	for _, rule := range fv.con.Reacquire {
		lx, err := parseSpecExpr(rule.LockSrc)
		if err != nil {
			fv.unsupp("spec error at %s:%d: bad lock expression %q", rule.File, rule.Line, rule.LockSrc)
			continue
		}
		env := &Env{fv: fv, st: fv.cur, old: fv.entry, vars: map[string]*Val{}, locals: true, at: fv.curBlock, allocOld: "alloc@0"}
		for k, v := range fv.params {
			if fv.findLocal(k, fv.curBlock) == nil {
				env.vars[k] = v
			}
		}
		if env.addrOf(lx) != id {
			continue
		}
		if fv.acquired == nil {
			fv.acquired = map[string]int{}
		}
		fv.acquired[id]++
		if fv.acquired[id] < 2 {
			continue
		}
		tmp := &Contract{Func: fv.key, Modifies: rule.Mods, HasMod: true, File: rule.File, Line: rule.Line}
		for _, t := range fv.resolveModifies(tmp, env) {
			if t.heap == "*" {
				continue
			}
			h := fv.heapGet(t.heap, t.sort)
			if t.whole || !strings.HasPrefix(t.sort, "(Array Int ") {
				fv.heapHavoc(t.heap)
				continue
			}
			cur := h
			for _, loc := range t.locs {
				fr := fv.fresh("rq."+t.heap, elemSortOfArray(t.sort))
				cur = "(store " + cur + " " + loc + " " + fr + ")"
			}
			fv.heapSet(t.heap, t.sort, cur)
		}
		if rule.Inv != nil {
			env2 := &Env{fv: fv, st: fv.cur, old: fv.entry, vars: env.vars, locals: true, at: fv.curBlock, allocOld: "alloc@0"}
			t := env2.tr(rule.Inv.Expr)
			fv.reportSpecErrs(env2, rule.Inv)
			fv.assume(t.T)
		}
		fv.note("lock re-acquired: guarded state forgotten (reacquire rule)")
	}
}
