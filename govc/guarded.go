package main

// guarded.go: guarded_by declarations and the lock-set pass that checks them.
//
//   guarded [label] C29 : T.mu : f1, f2, ...
//
// says that the fields f1, f2, ... of every T reachable by other threads are only read with T.mu held (read or
// write) and only written with T.mu write-held. The pass generates, in every function of the package that touches
// one of those fields through a *T (not just the functions that already carry a contract), one obligation per access:
//
//     the T was allocated by this very call (still private: nobody else can have its address)
//  or the calling thread holds T.mu in the required mode at that program point
//
// The lock state is the same ghost LOCK array the acquire/release obligations use (per mutex address: 0 none, n>0
// read-held n times, -1 write-held). A function is entered holding nothing (A-LOCKENTRY) unless its contract has a
// "requires held(x.mu) == -1" (or > 0 / != 0); that precondition is then an obligation of the same kind at every
// call site of the function, in every caller - so a helper that relies on its caller's lock is checked together
// with all its callers.

import (
	"fmt"
	"go/token"
	"go/types"
	"regexp"
	"sort"
	"strings"

	"golang.org/x/tools/go/ssa"
)

type GuardRule struct {
	Label  string
	Props  []string
	Type   string // named struct type
	Mu     string // mutex field (may be an embedded sync.RWMutex: "RWMutex")
	Fields []string
	Except map[string]bool // functions exempt from the rule (trusted)
	Deep   map[string]bool // fields declared 'f*': the object the field points to is guarded as well
	File   string
	Line   int
}

// parseGuarded parses the text after "guarded".
func parseGuarded(rest, file string, line int) (*GuardRule, error) {
	parts := strings.SplitN(rest, ":", 3)
	if len(parts) != 3 {
		return nil, fmt.Errorf("guarded: want '[label] props : Type.mu : fields'")
	}
	r := &GuardRule{File: file, Line: line}
	for _, w := range strings.Fields(parts[0]) {
		if len(w) == 3 && w[0] == 'C' && w[1] >= '0' && w[1] <= '9' {
			r.Props = append(r.Props, w)
		} else {
			r.Label = w
		}
	}
	tm := strings.TrimSpace(parts[1])
	i := strings.Index(tm, ".")
	if i < 0 {
		return nil, fmt.Errorf("guarded: want Type.mutexField, got %q", tm)
	}
	r.Type, r.Mu = tm[:i], tm[i+1:]
	if i := strings.Index(parts[2], " except "); i >= 0 {
		// functions whose accesses are synchronised by other means (stated, trusted, listed in the evidence)
		r.Except = map[string]bool{}
		for _, e := range strings.Split(parts[2][i+len(" except "):], ",") {
			if e = strings.TrimSpace(e); e != "" {
				r.Except[e] = true
			}
		}
		parts[2] = parts[2][:i]
	}
	for _, f := range strings.Split(parts[2], ",") {
		if f = strings.TrimSpace(f); f != "" {
			if strings.HasSuffix(f, "*") {
				f = strings.TrimSuffix(f, "*")
				if r.Deep == nil {
					r.Deep = map[string]bool{}
				}
				r.Deep[f] = true
			}
			r.Fields = append(r.Fields, f)
		}
	}
	if len(r.Props) == 0 || len(r.Fields) == 0 {
		return nil, fmt.Errorf("guarded: needs a property and at least one field")
	}
	if r.Label == "" {
		r.Label = r.Type
	}
	return r, nil
}

// guardFor returns the rule guarding field number idx of the struct that ptrT points to, and the index of the mutex.
func (g *Gen) guardFor(ptrT types.Type, idx int) (*GuardRule, int) {
	if len(g.spec.Guarded) == 0 {
		return nil, 0
	}
	pt, ok := ptrT.Underlying().(*types.Pointer)
	if !ok {
		return nil, 0
	}
	named, ok := types.Unalias(pt.Elem()).(*types.Named)
	if !ok {
		return nil, 0
	}
	st, ok := named.Underlying().(*types.Struct)
	if !ok || idx >= st.NumFields() {
		return nil, 0
	}
	if named.Obj().Pkg() != g.tpkg {
		return nil, 0
	}
	fname := st.Field(idx).Name()
	for _, r := range g.spec.Guarded {
		if r.Type != named.Obj().Name() {
			continue
		}
		for _, f := range r.Fields {
			if f == fname {
				for j := 0; j < st.NumFields(); j++ {
					if st.Field(j).Name() == r.Mu {
						return r, j
					}
				}
			}
		}
	}
	return nil, 0
}

// guardAccess classifies what is done with the address of a guarded field.
// write: some use stores through it (or hands the address to something that may); read otherwise.
func guardAccessIsWrite(fa *ssa.FieldAddr) bool {
	var walk func(v ssa.Value, depth int) bool
	walk = func(v ssa.Value, depth int) bool {
		refs := v.Referrers()
		if refs == nil {
			return true
		}
		for _, ref := range *refs {
			switch u := ref.(type) {
			case *ssa.Store:
				if u.Addr == v {
					return true
				}
			case *ssa.UnOp:
				// a load; the map, slice or list the loaded value refers to belongs to the field
				if loadedValueMutated(u) {
					return true
				}
			case *ssa.FieldAddr:
				if depth < 4 && walk(u, depth+1) {
					return true
				}
			case *ssa.IndexAddr:
				if depth < 4 && walk(u, depth+1) {
					return true
				}
			case *ssa.DebugRef:
			case ssa.CallInstruction:
				// the address of the field is the receiver or an argument (atomic.AddInt64(&x.f, 1), x.f.Lock()):
				// not a plain access, the callee synchronises for itself or is checked for itself
				_ = u
			default:
				return true
			}
		}
		return false
	}
	return walk(fa, 0)
}

// guardUsesPlain reports whether the address is used for a plain load or store (at any depth of sub-field or
// array element); an address that only flows into calls is not an access made by this function.
func guardUsesPlain(fa *ssa.FieldAddr) bool {
	var walk func(v ssa.Value, depth int) bool
	walk = func(v ssa.Value, depth int) bool {
		refs := v.Referrers()
		if refs == nil {
			return false
		}
		for _, ref := range *refs {
			switch u := ref.(type) {
			case *ssa.Store:
				if u.Addr == v {
					return true
				}
			case *ssa.UnOp:
				return true
			case *ssa.FieldAddr:
				if depth < 4 && walk(u, depth+1) {
					return true
				}
			case *ssa.IndexAddr:
				if depth < 4 && walk(u, depth+1) {
					return true
				}
			case *ssa.Slice:
				return true
			}
		}
		return false
	}
	return walk(fa, 0)
}

// execGuardedAccess is called for every FieldAddr; base is the *T value.
func (fv *FuncVC) execGuardedAccess(x *ssa.FieldAddr, base *Val) {
	rule, muIdx := fv.g.guardFor(x.X.Type(), x.Field)
	if rule == nil || !guardUsesPlain(x) {
		return
	}
	if rule.Except[fv.key] {
		fv.note("guarded: accesses of " + fv.key + " to " + rule.Type + " fields are exempt from rule " + rule.Label + " (trusted)")
		return
	}
	write := guardAccessIsWrite(x)
	p := fv.placeFromPointer(base)
	mp := fv.fieldPlace(p, muIdx)
	mv := &Val{T: "0", Typ: types.NewPointer(mp.Typ), Place: mp}
	id := fv.lockID(mv)
	h := fv.heapGet("LOCK", "(Array Int Int)")
	held := "(select " + h + " " + id + ")"
	var cond, what string
	if write {
		cond = "(= " + held + " (- 1))"
		what = "written"
	} else {
		cond = "(not (= " + held + " 0))"
		what = "read"
	}
	baseRef := fv.placeToValue(p, x.X.Type())
	goal := "(or (>= " + baseRef + " alloc@0) " + cond + ")"
	st := x.X.Type().Underlying().(*types.Pointer).Elem().Underlying().(*types.Struct)
	fname := st.Field(x.Field).Name()
	if fv.guardN == nil {
		fv.guardN = map[string]int{}
	}
	k := rule.Type + "." + fname
	fv.guardN[k]++
	mode := "r"
	if write {
		mode = "w"
	}
	if fv.guardN[k] == 1 {
		// vacuity guard: the first access to each guarded field in the function must be reachable under the
		// function's preconditions (an access that cannot be reached discharges whatever the lock state is)
		fv.obls = append(fv.obls, &Obligation{Name: fmt.Sprintf("%s#guarded#reach-%s", fv.key, k), Func: fv.key, Kind: "guard-reach", Expect: "sat",
			Prefix: len(fv.lines), Goal: "true", Reach: fv.pc, fv: fv, Props: rule.Props, Pos: fv.posStr(x.Pos())})
	}
	fv.oblige("guarded", fmt.Sprintf("%s-%s#%d", k, mode, fv.guardN[k]), rule.Props, goal,
		fmt.Sprintf("%s.%s is %s here: the %s must be private to this call or %s.%s held (guarded, %s:%d)", rule.Type, fname, what, rule.Type, rule.Type, rule.Mu, rule.File, rule.Line),
		fv.posStr(x.Pos()))
}

// guardedAccessors: every function of the package (closures included) that makes a plain access to a guarded field
// of a rule carrying prop, or calls a function whose contract has a held(...) precondition.
func (g *Gen) guardedAccessors(prop string) []string {
	has := false
	for _, r := range g.spec.Guarded {
		if contains(r.Props, prop) {
			has = true
		}
	}
	if !has {
		return nil
	}
	heldCallee := map[string]bool{}
	for k, c := range g.spec.Contracts {
		for _, r := range c.Requires {
			if heldLockRe.MatchString(r.Src) {
				heldCallee[k] = true
			}
		}
	}
	var out []string
	for k, f := range g.funcsByKey {
		if f.Blocks == nil || f.Pkg == nil || f.Pkg.Pkg != g.tpkg {
			continue
		}
		hit := false
		for _, b := range f.Blocks {
			for _, in := range b.Instrs {
				switch x := in.(type) {
				case *ssa.FieldAddr:
					if r, _ := g.guardFor(x.X.Type(), x.Field); r != nil && contains(r.Props, prop) && guardUsesPlain(x) && !r.Except[k] {
						hit = true
					}
				case ssa.CallInstruction:
					for _, ck := range calleeKeys(x.Common()) {
						if heldCallee[ck] {
							hit = true
						}
					}
				}
				if g.deepUse(in, prop) {
					hit = true
				}
			}
		}
		if !hit && g.mayRelock(f, heldCallee[k]) {
			hit = true
		}
		if hit {
			out = append(out, k)
		}
	}
	sort.Strings(out)
	return out
}

// mayRelock: f acquires (or holds by precondition) a mutex of a class that one of its static callees may acquire:
// the no-relock obligations of f are part of the pass even if f touches no guarded field.
func (g *Gen) mayRelock(f *ssa.Function, heldByContract bool) bool {
	own := map[string]bool{}
	for _, b := range f.Blocks {
		for _, in := range b.Instrs {
			if ci, ok := in.(ssa.CallInstruction); ok {
				if cl := g.acquiredClass(ci.Common()); cl != "" {
					own[cl] = true
				}
			}
		}
	}
	if len(own) == 0 && !heldByContract {
		return false
	}
	for _, b := range f.Blocks {
		for _, in := range b.Instrs {
			ci, ok := in.(ssa.CallInstruction)
			if !ok {
				continue
			}
			if _, isGo := in.(*ssa.Go); isGo {
				continue
			}
			cal := ci.Common().StaticCallee()
			if cal == nil || cal.Blocks == nil || g.acquiredClass(ci.Common()) != "" {
				continue
			}
			for cl := range g.mayAcquire(cal) {
				if own[cl] || heldByContract {
					return true
				}
			}
		}
	}
	return false
}

// guardScan prints, for every struct type of the package with a mutex field, which functions read and write which
// other fields (a help for writing guarded declarations; not part of any check).
func (g *Gen) guardScan() {
	type acc struct{ r, w map[string]bool }
	byField := map[string]*acc{}
	muOf := map[string]string{}
	for k, f := range g.funcsByKey {
		if f.Blocks == nil || f.Pkg == nil || f.Pkg.Pkg != g.tpkg {
			continue
		}
		for _, b := range f.Blocks {
			for _, in := range b.Instrs {
				x, ok := in.(*ssa.FieldAddr)
				if !ok {
					continue
				}
				pt, ok := x.X.Type().Underlying().(*types.Pointer)
				if !ok {
					continue
				}
				named, ok := types.Unalias(pt.Elem()).(*types.Named)
				if !ok || named.Obj().Pkg() != g.tpkg {
					continue
				}
				st := named.Underlying().(*types.Struct)
				mu := ""
				for j := 0; j < st.NumFields(); j++ {
					ts := st.Field(j).Type().String()
					if ts == "sync.Mutex" || ts == "sync.RWMutex" {
						mu += st.Field(j).Name() + " "
					}
				}
				if mu == "" || !guardUsesPlain(x) {
					continue
				}
				key := named.Obj().Name() + "." + st.Field(x.Field).Name()
				muOf[named.Obj().Name()] = mu
				a := byField[key]
				if a == nil {
					a = &acc{r: map[string]bool{}, w: map[string]bool{}}
					byField[key] = a
				}
				if guardAccessIsWrite(x) {
					a.w[k] = true
				} else {
					a.r[k] = true
				}
			}
		}
	}
	var keys []string
	for k := range byField {
		keys = append(keys, k)
	}
	sort.Strings(keys)
	for _, k := range keys {
		a := byField[k]
		fmt.Printf("%s  (mutexes of type: %s)\n   W: %s\n   R: %s\n", k, muOf[strings.SplitN(k, ".", 2)[0]], strings.Join(sortedKeys(a.w), " "), strings.Join(sortedKeys(a.r), " "))
	}
}

var listMutators = map[string]bool{"PushFront": true, "PushBack": true, "Remove": true, "MoveToFront": true, "MoveToBack": true,
	"Init": true, "InsertBefore": true, "InsertAfter": true, "MoveBefore": true, "MoveAfter": true, "PushBackList": true, "PushFrontList": true}

// loadedValueMutated: v is the value loaded from a guarded field. A map that is updated or deleted from, a slice whose
// elements are stored to, a *list.List whose mutating methods are called: the field's content is written.
func loadedValueMutated(v ssa.Value) bool {
	refs := v.Referrers()
	if refs == nil {
		return false
	}
	for _, ref := range *refs {
		switch u := ref.(type) {
		case *ssa.MapUpdate:
			if u.Map == v {
				return true
			}
		case *ssa.IndexAddr:
			if u.X == v {
				if rr := u.Referrers(); rr != nil {
					for _, r2 := range *rr {
						if st, ok := r2.(*ssa.Store); ok && st.Addr == u {
							return true
						}
					}
				}
			}
		case ssa.CallInstruction:
			c := u.Common()
			if b, ok := c.Value.(*ssa.Builtin); ok && (b.Name() == "delete" || b.Name() == "clear") && len(c.Args) > 0 && c.Args[0] == v {
				return true
			}
			if f := c.StaticCallee(); f != nil && len(c.Args) > 0 && c.Args[0] == v && f.Pkg != nil && f.Pkg.Pkg.Path() == "container/list" && listMutators[f.Name()] {
				return true
			}
		}
	}
	return false
}

// guardProps: the properties that have guarded declarations.
func (g *Gen) guardProps() []string {
	seen := map[string]bool{}
	var out []string
	for _, r := range g.spec.Guarded {
		for _, p := range r.Props {
			if !seen[p] {
				seen[p] = true
				out = append(out, p)
			}
		}
	}
	return out
}

// heldLockRe: a precondition that says the caller HOLDS a lock (not one that says it does not: held(x) == 0).
var heldLockRe = regexp.MustCompile(`held\([^()]*\)\s*(== -1|== 1|!= 0|> 0|>= 1)`)

// unresolved reports what a rule names that the package no longer has (type, mutex field, guarded field): the rule
// would silently match nothing, so this is an anchor loss, not a pass.
func (g *Gen) guardRuleUnresolved(r *GuardRule) string {
	obj := g.tpkg.Scope().Lookup(r.Type)
	if obj == nil {
		return "type " + r.Type + " no longer exists"
	}
	st, ok := obj.Type().Underlying().(*types.Struct)
	if !ok {
		return r.Type + " is not a struct any more"
	}
	has := func(n string) bool {
		for j := 0; j < st.NumFields(); j++ {
			if st.Field(j).Name() == n {
				return true
			}
		}
		return false
	}
	if !has(r.Mu) {
		return r.Type + " has no mutex field " + r.Mu + " any more"
	}
	for _, f := range r.Fields {
		if !has(f) {
			return r.Type + " has no field " + f + " any more"
		}
	}
	return ""
}

// ---- deep rules: "attrs*" guards the pointer field AND the object it points to -------------------------------------
//
// x.attrs.F, *x.attrs and x.attrs.M() are accesses to the pointee made through a freshly loaded x.attrs: they need
// x's mutex like the load itself (write-held for a store to a pointee field or a call of a mutating method). Aliases
// kept in local variables are not followed (stated in the evidence).

// deepSource: ptr is the value loaded from a deep-guarded field; returns that field's address instruction.
func (g *Gen) deepSource(ptr ssa.Value) (*ssa.FieldAddr, *GuardRule, int) {
	ld, ok := ptr.(*ssa.UnOp)
	if !ok || ld.Op != token.MUL {
		return nil, nil, 0
	}
	fa, ok := ld.X.(*ssa.FieldAddr)
	if !ok {
		return nil, nil, 0
	}
	r, mu := g.guardFor(fa.X.Type(), fa.Field)
	if r == nil {
		return nil, nil, 0
	}
	st := fa.X.Type().Underlying().(*types.Pointer).Elem().Underlying().(*types.Struct)
	if !r.Deep[st.Field(fa.Field).Name()] {
		return nil, nil, 0
	}
	return fa, r, mu
}

func (fv *FuncVC) guardDeep(ptr ssa.Value, write bool, what string, pos token.Pos) {
	fa, rule, muIdx := fv.g.deepSource(ptr)
	if fa == nil {
		return
	}
	base, ok := fv.regs[fa.X]
	if !ok || base == nil {
		return
	}
	p := fv.placeFromPointer(base)
	mp := fv.fieldPlace(p, muIdx)
	id := fv.lockID(&Val{T: "0", Typ: types.NewPointer(mp.Typ), Place: mp})
	held := "(select " + fv.heapGet("LOCK", "(Array Int Int)") + " " + id + ")"
	cond, verb, mode := "(not (= "+held+" 0))", "read", "r"
	if write {
		cond, verb, mode = "(= "+held+" (- 1))", "written", "w"
	}
	goal := "(or (>= " + fv.placeToValue(p, fa.X.Type()) + " alloc@0) " + cond + ")"
	st := fa.X.Type().Underlying().(*types.Pointer).Elem().Underlying().(*types.Struct)
	k := rule.Type + "." + st.Field(fa.Field).Name() + "*"
	if fv.guardN == nil {
		fv.guardN = map[string]int{}
	}
	fv.guardN[k]++
	fv.oblige("guarded", fmt.Sprintf("%s-%s#%d", k, mode, fv.guardN[k]), rule.Props, goal,
		fmt.Sprintf("the object %s.%s points to is %s here (%s): the %s must be private to this call or %s.%s held (guarded, %s:%d)",
			rule.Type, st.Field(fa.Field).Name(), verb, what, rule.Type, rule.Type, rule.Mu, rule.File, rule.Line), fv.posStr(pos))
}

// deepMutators: methods of the pointee types that write their receiver.
var deepMutators = map[string]bool{"SetMtime": true, "SetAtime": true, "Refresh": true, "Invalidate": true}

// guardDeepCall: receiver or argument of a call is a freshly loaded deep-guarded pointer.
func (fv *FuncVC) guardDeepCall(c *ssa.CallCommon, pos token.Pos) {
	if len(fv.g.spec.Guarded) == 0 {
		return
	}
	for i, a := range c.Args {
		if fa, _, _ := fv.g.deepSource(a); fa == nil {
			continue
		}
		write := true // handed to a function as an argument: it may do anything with it
		name := "argument of a call"
		if f := c.StaticCallee(); f != nil && i == 0 && f.Signature.Recv() != nil {
			write = deepMutators[f.Name()]
			name = "receiver of " + f.Name()
		}
		fv.guardDeep(a, write, name, pos)
	}
}

// deepFieldUse: does the function access the pointee of a deep-guarded field (for guardedAccessors)?
func (g *Gen) deepUse(in ssa.Instruction, prop string) bool {
	chk := func(v ssa.Value) bool {
		fa, r, _ := g.deepSource(v)
		return fa != nil && contains(r.Props, prop)
	}
	switch x := in.(type) {
	case *ssa.FieldAddr:
		return chk(x.X)
	case *ssa.UnOp:
		return x.Op == token.MUL && chk(x.X)
	case ssa.CallInstruction:
		for _, a := range x.Common().Args {
			if chk(a) {
				return true
			}
		}
	}
	return false
}

// ---- no re-locking through a callee --------------------------------------------------------------------------------
//
// sync.RWMutex is not re-entrant, and a read lock must not be taken again by a thread that already holds it (a writer
// queued between the two acquisitions blocks the second one for ever: "this prohibits recursive read locking", package
// sync). Inside one function the acquire obligations see that; across a call they do not, because a callee is verified
// as entered with no lock held (A-LOCKENTRY). So that assumption is made an obligation at the call: for every mutex
// the caller has acquired (or holds by precondition) whose CLASS (struct type + field) the callee may acquire - itself
// or through static callees, transitively - the caller does not hold it at the call. Class level: holding one node's
// mutex while calling something that locks another node's is flagged too (that nesting has no defined order).
// Calls through interfaces and function values are not followed.

func (g *Gen) lockClassOf(recv ssa.Value) string {
	switch v := recv.(type) {
	case *ssa.FieldAddr:
		pt, ok := v.X.Type().Underlying().(*types.Pointer)
		if !ok {
			return ""
		}
		named, ok := types.Unalias(pt.Elem()).(*types.Named)
		if !ok {
			return ""
		}
		st, ok := named.Underlying().(*types.Struct)
		if !ok {
			return ""
		}
		return named.Obj().Name() + "." + st.Field(v.Field).Name()
	case *ssa.Global:
		return "global." + v.Name()
	}
	return ""
}

func (g *Gen) acquiredClass(c *ssa.CallCommon) string {
	f := c.StaticCallee()
	if f == nil || f.Pkg == nil || f.Pkg.Pkg.Path() != "sync" || len(c.Args) == 0 || f.Signature.Recv() == nil {
		return ""
	}
	rt := f.Signature.Recv().Type().String()
	if rt != "*sync.Mutex" && rt != "*sync.RWMutex" {
		return ""
	}
	switch f.Name() {
	case "Lock", "RLock", "TryLock", "TryRLock":
		return g.lockClassOf(c.Args[0])
	}
	return ""
}

// mayAcquire: classes of the mutexes f may acquire, itself or through static callees (go statements excluded).
func (g *Gen) mayAcquire(f *ssa.Function) map[string]bool {
	if g.mayAcq == nil {
		g.mayAcq = map[*ssa.Function]map[string]bool{}
		var fns []*ssa.Function
		for _, fn := range g.funcsByKey {
			if fn.Blocks != nil {
				fns = append(fns, fn)
				g.mayAcq[fn] = map[string]bool{}
			}
		}
		for changed := true; changed; {
			changed = false
			for _, fn := range fns {
				set := g.mayAcq[fn]
				for _, b := range fn.Blocks {
					for _, in := range b.Instrs {
						ci, ok := in.(ssa.CallInstruction)
						if !ok {
							continue
						}
						if _, isGo := in.(*ssa.Go); isGo {
							continue
						}
						if cl := g.acquiredClass(ci.Common()); cl != "" {
							if !set[cl] {
								set[cl] = true
								changed = true
							}
							continue
						}
						if cal := ci.Common().StaticCallee(); cal != nil {
							for cl := range g.mayAcq[cal] {
								if !set[cl] {
									set[cl] = true
									changed = true
								}
							}
						}
					}
				}
			}
		}
	}
	return g.mayAcq[f]
}

// guardNoRelock: obligations at a call of a package function.
func (fv *FuncVC) guardNoRelock(callee *ssa.Function, pos token.Pos) {
	gp := fv.g.guardProps()
	if len(gp) == 0 || callee == nil || len(fv.lockClass) == 0 {
		return
	}
	acq := fv.g.mayAcquire(callee)
	if len(acq) == 0 {
		return
	}
	h := ""
	for _, id := range fv.lockIDs {
		cl := fv.lockClass[id]
		if cl == "" || !acq[cl] {
			continue
		}
		if h == "" {
			h = fv.heapGet("LOCK", "(Array Int Int)")
		}
		fv.relockN++
		fv.oblige("guarded", fmt.Sprintf("no-relock#%s#%d", funcKey(callee), fv.relockN), gp, "(= (select "+h+" "+id+") 0)",
			fmt.Sprintf("%s may acquire a %s (itself or in a callee): the caller must not hold its own %s here (sync mutexes are not re-entrant; a second read lock deadlocks behind a queued writer)", funcKey(callee), cl, cl),
			fv.posStr(pos))
	}
}
