package main

// modset.go: interprocedural write-set inference and hard-wired primitives (locks, atomics, binary.Read...).

import (
	"fmt"
	"go/token"
	"go/types"
	"strings"

	"golang.org/x/tools/go/ssa"
)

// modOf returns the set of heap names fn (or anything it calls) may write.
func (g *Gen) modOf(fn *ssa.Function) map[string]bool {
	if m, ok := g.modCache[fn]; ok {
		return m
	}
	if g.modBusy[fn] {
		g.modCycle = true
		return map[string]bool{}
	}
	key := funcKey(fn)
	if con, ok := g.spec.Contracts[key]; ok && con.HasMod {
		m := g.contractModNames(con, fn, nil)
		g.modCache[fn] = m
		return m
	}
	if fn.Blocks == nil {
		m := map[string]bool{"?ext": true}
		g.modCache[fn] = m
		return m
	}
	g.modBusy[fn] = true
	savedCycle := g.modCycle
	g.modCycle = false
	heaps := map[string]bool{}
	cells := map[*ssa.Alloc]bool{}
	for _, b := range fn.Blocks {
		for _, in := range b.Instrs {
			g.instrWrites(fn, in, cells, heaps, nil)
		}
	}
	delete(g.modBusy, fn)
	if !g.modCycle {
		g.modCache[fn] = heaps
	}
	g.modCycle = g.modCycle || savedCycle
	return heaps
}

// contractModNames: heap names named by a contract's modifies clause (static view).
func (g *Gen) contractModNames(con *Contract, fn *ssa.Function, c *ssa.CallCommon) map[string]bool {
	if m, ok := g.conModCache[con]; ok {
		return m
	}
	out := map[string]bool{}
	if con.Pure {
		g.conModCache[con] = out
		return out
	}
	scratch := g.newFuncVC(nil, nil)
	env := &Env{fv: scratch, st: scratch.cur, old: scratch.cur, vars: map[string]*Val{}, allocOld: "0"}
	// bind parameters to typed dummies
	var names []string
	var typs []types.Type
	if fn != nil {
		for _, p := range fn.Params {
			names = append(names, p.Name())
			typs = append(typs, p.Type())
		}
		for _, f := range fn.FreeVars {
			names = append(names, f.Name())
			typs = append(typs, deref(f.Type()))
		}
	} else if c != nil {
		sig := c.Signature()
		if c.IsInvoke() {
			typs = append(typs, c.Value.Type())
		} else if sig.Recv() != nil {
			typs = append(typs, sig.Recv().Type())
		}
		for i := 0; i < sig.Params().Len(); i++ {
			typs = append(typs, sig.Params().At(i).Type())
		}
	}
	if len(con.Params) > 0 {
		names = nil
		for _, p := range con.Params {
			names = append(names, p.Name)
		}
		// types from declared param types when available
		if fn == nil && c == nil {
			typs = nil
			for _, p := range con.Params {
				typs = append(typs, g.resolveType(p.Type))
			}
		}
	}
	for i, n := range names {
		if i < len(typs) && typs[i] != nil {
			env.vars[n] = &Val{T: "d!" + n, Typ: typs[i]}
		}
	}
	for _, t := range scratch.resolveModifies(con, env) {
		out[t.heap] = true
	}
	g.conModCache[con] = out
	return out
}

// modOfInvoke: write set of an interface method call without a declared contract.
func (g *Gen) modOfInvoke(c *ssa.CallCommon) map[string]bool {
	out := map[string]bool{}
	iface, ok := c.Value.Type().Underlying().(*types.Interface)
	if !ok {
		out["*"] = true
		return out
	}
	name := c.Method.Name()
	found := false
	for _, T := range g.repoNamedTypes() {
		for _, t := range []types.Type{T, types.NewPointer(T)} {
			if types.Implements(t, iface) {
				ms := g.prog.MethodSets.MethodSet(t)
				if sel := ms.Lookup(c.Method.Pkg(), name); sel != nil {
					if f := g.prog.MethodValue(sel); f != nil {
						found = true
						for k := range g.modOf(f) {
							out[k] = true
						}
					}
				}
			}
		}
	}
	_ = found
	// external implementations may write memory reachable from the arguments
	seen := map[string]bool{}
	for _, a := range c.Args {
		g.reachableHeaps(a.Type(), out, seen, 0, true)
	}
	out["GH$extstate"] = true
	return out
}

// modOfInterface: writes possible when external code holds an interface value of this type
// (it may call any method of the interface on a repo type).
func (g *Gen) modOfInterface(iface *types.Interface) map[string]bool {
	key := iface.String()
	if m, ok := g.ifaceModCache[key]; ok {
		return m
	}
	out := map[string]bool{}
	g.ifaceModCache[key] = out
	methodNames := map[string]bool{}
	for i := 0; i < iface.NumMethods(); i++ {
		methodNames[iface.Method(i).Name()] = true
	}
	if iface.NumMethods() == 0 {
		// any: fmt-style consumers call Error/String/Format/GoString
		for _, n := range []string{"Error", "String", "Format", "GoString"} {
			methodNames[n] = true
		}
	}
	for _, T := range g.repoNamedTypes() {
		for _, t := range []types.Type{T, types.NewPointer(T)} {
			if iface.NumMethods() > 0 && !types.Implements(t, iface) {
				continue
			}
			ms := g.prog.MethodSets.MethodSet(t)
			for i := 0; i < ms.Len(); i++ {
				sel := ms.At(i)
				if !methodNames[sel.Obj().Name()] {
					continue
				}
				if iface.NumMethods() == 0 {
					// fmt-style consumers only call niladic Error/String/GoString and Format(State, rune)
					sig, _ := sel.Type().(*types.Signature)
					if sig == nil {
						continue
					}
					if sel.Obj().Name() == "Format" {
						if sig.Params().Len() != 2 {
							continue
						}
					} else if sig.Params().Len() != 0 || sig.Results().Len() != 1 {
						continue
					}
				}
				if f := g.prog.MethodValue(sel); f != nil {
					for k := range g.modOf(f) {
						out[k] = true
					}
				}
			}
		}
	}
	return out
}

func (g *Gen) repoNamedTypes() []types.Type {
	if g.namedTypes != nil {
		return g.namedTypes
	}
	sc := g.tpkg.Scope()
	for _, n := range sc.Names() {
		if tn, ok := sc.Lookup(n).(*types.TypeName); ok && !tn.IsAlias() {
			if _, isIface := tn.Type().Underlying().(*types.Interface); !isIface {
				g.namedTypes = append(g.namedTypes, tn.Type())
			}
		}
	}
	return g.namedTypes
}

// ---------- primitives ----------

var primitiveKeys = map[string]bool{
	"sync.Mutex.Lock": true, "sync.Mutex.Unlock": true, "sync.Mutex.TryLock": true,
	"sync.RWMutex.Lock": true, "sync.RWMutex.Unlock": true, "sync.RWMutex.RLock": true, "sync.RWMutex.RUnlock": true,
	"sync.RWMutex.TryRLock": true, "sync.RWMutex.TryLock": true,
	"sync.Once.Do": true,
}

func (g *Gen) isPrimitiveKey(keys []string) bool {
	for _, k := range keys {
		if primitiveKeys[k] {
			return true
		}
	}
	return false
}

func (g *Gen) primitiveWrites(keys []string, c *ssa.CallCommon) map[string]bool {
	out := map[string]bool{}
	for _, k := range keys {
		if strings.HasPrefix(k, "sync.") && primitiveKeys[k] {
			out["LOCK"] = true
		}
		if k == "sync.Once.Do" {
			out["ONCE"] = true
			if len(c.Args) == 2 {
				if mc, ok := c.Args[1].(*ssa.MakeClosure); ok {
					if f, ok := mc.Fn.(*ssa.Function); ok {
						if con := g.spec.Contracts[funcKey(f)]; con != nil && con.HasMod {
							for h := range g.contractModNames(con, f, nil) {
								out[h] = true
							}
						} else {
							for h := range g.modOf(f) {
								out[h] = true
							}
						}
					}
				} else {
					out["*"] = true
				}
			}
		}
		if k == "binary.Read" {
			out["GH$rdpos"] = true
			if len(c.Args) == 3 {
				if mi, ok := c.Args[2].(*ssa.MakeInterface); ok {
					cells := map[*ssa.Alloc]bool{}
					g.addrWritesDeref(mi.X, cells, out)
				}
			}
		}
	}
	return out
}

func (g *Gen) addrWritesDeref(ptr ssa.Value, cells map[*ssa.Alloc]bool, heaps map[string]bool) {
	g.addrWrites(ptr, cells, heaps, nil)
}

func (fv *FuncVC) lockID(v *Val) string {
	if v.Place != nil {
		return fv.placeToValue(v.Place, v.Typ)
	}
	return v.T
}

// primitive handles hard-wired callee semantics. ok=false if not a primitive.
func (fv *FuncVC) primitive(keys []string, c *ssa.CallCommon, args []*Val, resT types.Type, pos token.Pos) (*Val, bool) {
	key := ""
	for _, k := range keys {
		if primitiveKeys[k] {
			key = k
		}
	}
	if key == "" {
		return nil, false
	}
	void := &Val{Typ: resT}
	props := []string(nil)
	if fv.con != nil {
		props = fv.con.Props
	}
	switch key {
	case "sync.Mutex.Lock", "sync.RWMutex.Lock", "sync.Mutex.Unlock", "sync.RWMutex.Unlock", "sync.RWMutex.RLock", "sync.RWMutex.RUnlock",
		"sync.RWMutex.TryRLock", "sync.RWMutex.TryLock", "sync.Mutex.TryLock":
		id := fv.lockID(args[0])
		fv.noteLockID(id)
		if cl := fv.g.lockClassOf(c.Args[0]); cl != "" {
			if fv.lockClass == nil {
				fv.lockClass = map[string]string{}
			}
			fv.lockClass[id] = cl
		}
		h := fv.heapGet("LOCK", "(Array Int Int)")
		held := "(select " + h + " " + id + ")"
		op := key[strings.LastIndex(key, ".")+1:]
		fv.lockOps++
		n := fv.lockOps
		switch op {
		case "Lock":
			fv.oblige("lock", fmt.Sprintf("no-self-deadlock#%d", n), props, "(= "+held+" 0)", "Lock() while this thread already holds the mutex", fv.posStr(pos))
			fv.assume("(= " + held + " 0)") // likewise: Lock returns only to a thread that did not hold the mutex
			fv.heapSet("LOCK", "(Array Int Int)", "(store "+h+" "+id+" (- 1))")
			fv.onAcquire(args[0], id, true)
			fv.snapshotAtAcquire(c.Args[0])
		case "Unlock":
			fv.oblige("lock", fmt.Sprintf("unlock-held#%d", n), props, "(= "+held+" (- 1))", "Unlock() of a mutex not write-held by this thread", fv.posStr(pos))
			fv.heapSet("LOCK", "(Array Int Int)", "(store "+h+" "+id+" 0)")
		case "RLock":
			fv.oblige("lock", fmt.Sprintf("no-self-deadlock#%d", n), props, "(= "+held+" 0)", "RLock() while this thread already holds the mutex (write-held: self-deadlock; read-held: recursive read locking deadlocks behind a queued writer)", fv.posStr(pos))
			// a thread that write-holds the mutex never returns from RLock: execution continues only with held >= 0
			fv.assume("(>= " + held + " 0)")
			fv.heapSet("LOCK", "(Array Int Int)", "(store "+h+" "+id+" (+ "+held+" 1))")
			fv.onAcquire(args[0], id, false)
			fv.snapshotAtAcquire(c.Args[0])
		case "RUnlock":
			fv.oblige("lock", fmt.Sprintf("runlock-held#%d", n), props, "(> "+held+" 0)", "RUnlock() of a mutex not read-held by this thread", fv.posStr(pos))
			fv.heapSet("LOCK", "(Array Int Int)", "(store "+h+" "+id+" (- "+held+" 1))")
		case "TryRLock":
			ok := fv.fresh("tryrlock", "Bool")
			fv.heapSet("LOCK", "(Array Int Int)", "(ite "+ok+" (store "+h+" "+id+" (+ "+held+" 1)) "+h+")")
			return &Val{T: ok, Typ: resT}, true
		case "TryLock":
			ok := fv.fresh("trylock", "Bool")
			fv.assume("(=> " + ok + " (= " + held + " 0))")
			fv.heapSet("LOCK", "(Array Int Int)", "(ite "+ok+" (store "+h+" "+id+" (- 1)) "+h+")")
			return &Val{T: ok, Typ: resT}, true
		}
		return void, true
	case "sync.Once.Do":
		// Do(f) calls f exactly when no earlier Do on this Once has run (ghost ONCE[o]); A-MUTEX
		id := fv.lockID(args[0])
		once := fv.heapGet("ONCE", "(Array Int Bool)")
		done := "(select " + once + " " + id + ")"
		fnv := args[1]
		if fnv.Fn == nil {
			fv.note("sync.Once.Do with an unknown function value: havoc of memory reachable from its arguments")
			fv.havocExtTyped(args[1:])
		} else {
			callee := fnv.Fn.(*ssa.Function)
			saved := fv.cur.clone()
			savedPC := fv.pc
			fv.pc = and(fv.pc, not(done))
			fv.callFunctionValue(callee, fnv.Bind, pos)
			fv.pc = savedPC
			fv.cur = fv.mergeStates([]*State{fv.cur, saved}, []string{not(done), done})
		}
		fv.heapSet("ONCE", "(Array Int Bool)", "(store "+fv.heapGet("ONCE", "(Array Int Bool)")+" "+id+" true)")
		return void, true
	case "binary.Read":
		return fv.primBinaryRead(c, args, resT, pos), true
	}
	return nil, false
}

// onAcquire: hook for lock-protected state (interference havoc); see locks.go
func (fv *FuncVC) onAcquire(mu *Val, id string, write bool) {
	if fv.g.interference {
		fv.havocGuarded(mu, id)
	}
	fv.reacquire(id)
}

// binary.Read(r, order, &x): reads sizeof(x) bytes big-endian from the ghost stream of r.
// Modelled: err != nil => *x unchanged-or-arbitrary; err == nil => *x is an arbitrary value of its
// type (the stream content is client-controlled, hence arbitrary). Stream position bookkeeping is
// kept in ghost GH$rdpos (reader -> bytes consumed).
func (fv *FuncVC) primBinaryRead(c *ssa.CallCommon, args []*Val, resT types.Type, pos token.Pos) *Val {
	err := fv.havocVal("binread.err", resT)
	if len(c.Args) == 3 {
		if mi, ok := c.Args[2].(*ssa.MakeInterface); ok {
			pv := fv.val(mi.X)
			if _, isPtr := mi.X.Type().Underlying().(*types.Pointer); isPtr {
				pl := fv.placeFromPointer(pv)
				nv := fv.havocVal("binread.v", pl.Typ)
				old := fv.loadPlace(fv.cur, pl)
				// on error the destination may be partially written: arbitrary
				_ = old
				fv.storePlace(pl, nv)
				sz := sizeOfType(pl.Typ)
				rd := fv.heapGet("GH$rdpos", "(Array Int Int)")
				rid := "(i.val " + args[0].T + ")"
				adv := fv.fresh("binread.n", "Int")
				fv.emit(fmt.Sprintf("(assert (and (<= 0 %s) (<= %s %d) (=> (= (i.typ %s) 0) (= %s %d))))", adv, adv, sz, err.T, adv, sz))
				fv.heapSet("GH$rdpos", "(Array Int Int)", fmt.Sprintf("(store %s %s (+ (select %s %s) %s))", rd, rid, rd, rid, adv))
				return err
			}
		}
	}
	fv.note("binary.Read with unrecognised destination: havoc")
	fv.havocExtTyped(args)
	return err
}

func sizeOfType(t types.Type) int64 {
	switch u := t.Underlying().(type) {
	case *types.Basic:
		switch u.Kind() {
		case types.Uint8, types.Int8, types.Bool:
			return 1
		case types.Uint16, types.Int16:
			return 2
		case types.Uint32, types.Int32, types.Float32:
			return 4
		case types.Uint64, types.Int64, types.Float64:
			return 8
		}
	case *types.Array:
		return u.Len() * sizeOfType(u.Elem())
	case *types.Struct:
		var s int64
		for i := 0; i < u.NumFields(); i++ {
			s += sizeOfType(u.Field(i).Type())
		}
		return s
	}
	return 0
}
