package main

// writers.go: 'writers' clauses. A field may be stored to only by the listed functions. This is the
// sequential stand-in for a rely condition: the spawner's postcondition about the field is stable under
// every other thread because no other function contains a store to it. The check is a static one over
// each function's own store instructions (whole-struct stores count as stores to every leaf); the result
// is turned into a trivially true/false goal so that it flows through the ordinary obligation plumbing.

import (
	"fmt"
	"go/types"
	"sort"
	"strings"

	"golang.org/x/tools/go/ssa"
)

type WritersRule struct {
	Label string
	Props []string
	Field string   // T.f.g
	Funcs []string // function keys allowed to store to the field
	Src   string
	File  string
	Line  int
}

// parseWriters parses "[label] PROP... : T.f.g : F1, F2".
func parseWriters(text, file string, line int) (*WritersRule, error) {
	parts := strings.SplitN(text, ":", 3)
	if len(parts) != 3 {
		return nil, fmt.Errorf("%s:%d: writers needs 'props : field : functions'", file, line)
	}
	w := &WritersRule{Src: strings.TrimSpace(text), File: file, Line: line}
	for _, f := range strings.Fields(parts[0]) {
		if strings.HasPrefix(f, "[") && strings.HasSuffix(f, "]") {
			w.Label = strings.Trim(f, "[]")
		} else {
			w.Props = append(w.Props, f)
		}
	}
	w.Field = strings.TrimSpace(parts[1])
	for _, f := range strings.Split(parts[2], ",") {
		if f = strings.TrimSpace(f); f != "" {
			w.Funcs = append(w.Funcs, f)
		}
	}
	if w.Label == "" {
		w.Label = w.Field
	}
	return w, nil
}

// writersHeaps resolves T.f.g to the leaf heaps below it.
func (g *Gen) writersHeaps(field string) ([]string, error) {
	segs := strings.Split(field, ".")
	if len(segs) < 2 {
		return nil, fmt.Errorf("writers: %s is not Type.field", field)
	}
	t := g.resolveType(segs[0])
	if t == nil {
		return nil, fmt.Errorf("writers: unknown type %s", segs[0])
	}
	prefix := ""
	cur := t
	for i, s := range segs[1:] {
		st, ok := cur.Underlying().(*types.Struct)
		if !ok {
			return nil, fmt.Errorf("writers: %s is not a struct in %s", strings.Join(segs[:i+1], "."), field)
		}
		found := false
		for k := 0; k < st.NumFields(); k++ {
			if st.Field(k).Name() == s {
				if i == 0 {
					prefix, _ = g.fieldHeap(cur, k)
				} else {
					prefix += "." + s
				}
				cur = st.Field(k).Type()
				found = true
				break
			}
		}
		if !found {
			return nil, fmt.Errorf("writers: no field %s in %s", s, field)
		}
	}
	var out []string
	for _, lf := range g.leavesOf(prefix, cur) {
		out = append(out, lf.name)
	}
	return out, nil
}

// ownStores: heaps written by fn's own store instructions (calls excluded).
func (g *Gen) ownStores(fn *ssa.Function) map[string]bool {
	heaps := map[string]bool{}
	cells := map[*ssa.Alloc]bool{}
	for _, b := range fn.Blocks {
		for _, in := range b.Instrs {
			if st, ok := in.(*ssa.Store); ok {
				g.addrWrites(st.Addr, cells, heaps, nil)
			}
		}
	}
	return heaps
}

func (g *Gen) writersObligations(prop string) []*Obligation {
	var out []*Obligation
	for _, w := range g.spec.Writers {
		if prop != "" && !contains(w.Props, prop) {
			continue
		}
		heaps, err := g.writersHeaps(w.Field)
		pos := fmt.Sprintf("%s:%d", w.File, w.Line)
		if err != nil {
			out = append(out, &Obligation{Name: "writers." + w.Label + "#anchor#unresolved", Func: "writers." + w.Label, Kind: "writers",
				Expect: "unsat", Goal: "false", Reach: "true", Props: w.Props, Src: err.Error(), Pos: pos})
			continue
		}
		allowed := map[string]bool{}
		for _, f := range w.Funcs {
			allowed[f] = true
			if _, ok := g.funcsByKey[f]; !ok {
				out = append(out, &Obligation{Name: "writers." + w.Label + "#anchor#" + f, Func: "writers." + w.Label, Kind: "writers",
					Expect: "unsat", Goal: "false", Reach: "true", Props: w.Props, Src: "listed writer " + f + " does not exist in the current code", Pos: pos})
			}
		}
		var keys []string
		for k := range g.funcsByKey {
			keys = append(keys, k)
		}
		sort.Strings(keys)
		n := 0
		for _, k := range keys {
			fn := g.funcsByKey[k]
			if fn.Blocks == nil || fn.Synthetic != "" {
				continue
			}
			n++
			if allowed[k] {
				continue
			}
			st := g.ownStores(fn)
			for _, h := range heaps {
				if st[h] {
					fpos := ""
					if fn.Pos().IsValid() {
						fpos = g.fset.Position(fn.Pos()).String()
					}
					out = append(out, &Obligation{Name: "writers." + w.Label + "#store-in#" + k, Func: "writers." + w.Label, Kind: "writers",
						Expect: "unsat", Goal: "false", Reach: "true", Props: w.Props,
						Src: fmt.Sprintf("%s is stored to by %s, which is not among its permitted writers (%s)", w.Field, k, strings.Join(w.Funcs, ", ")), Pos: fpos})
					break
				}
			}
		}
		out = append(out, &Obligation{Name: "writers." + w.Label + "#only-listed", Func: "writers." + w.Label, Kind: "writers",
			Expect: "unsat", Goal: "true", Reach: "true", Props: w.Props,
			Src: fmt.Sprintf("static: %d function bodies scanned for stores to %s", n, w.Field), Pos: pos})
	}
	return out
}
