package main

// tables.go: 'table' rules - a package-level dispatch map holds exactly the listed (key -> function) entries,
// is built once by the package initialiser and is never written afterwards. Structural obligations over the SSA,
// in the same spirit as the 'writers' closure check: they tie "procedure number p" to "the handler whose contract
// describes the result of p", which no per-function contract can state.
//
//   //@ table [label] Cxx : globalMap : 0=Recv.method, 1=Recv.other, ...

import (
	"fmt"
	"go/constant"
	"sort"
	"strings"

	"golang.org/x/tools/go/ssa"
)

type TableRule struct {
	Label   string
	Props   []string
	Global  string
	Entries map[string]string // key (decimal) -> function key
	Src     string
	File    string
	Line    int
}

func parseTable(text, file string, line int) (*TableRule, error) {
	parts := strings.SplitN(text, ":", 3)
	if len(parts) != 3 {
		return nil, fmt.Errorf("%s:%d: table needs 'props : global : key=function, ...'", file, line)
	}
	t := &TableRule{Src: strings.TrimSpace(text), File: file, Line: line, Entries: map[string]string{}}
	for _, f := range strings.Fields(parts[0]) {
		if strings.HasPrefix(f, "[") && strings.HasSuffix(f, "]") {
			t.Label = strings.Trim(f, "[]")
		} else {
			t.Props = append(t.Props, f)
		}
	}
	t.Global = strings.TrimSpace(parts[1])
	for _, e := range strings.Split(parts[2], ",") {
		e = strings.TrimSpace(e)
		if e == "" {
			continue
		}
		kv := strings.SplitN(e, "=", 2)
		if len(kv) != 2 {
			return nil, fmt.Errorf("%s:%d: table entry %q is not key=function", file, line, e)
		}
		t.Entries[strings.TrimSpace(kv[0])] = strings.TrimSpace(kv[1])
	}
	if t.Label == "" {
		t.Label = t.Global
	}
	return t, nil
}

func (g *Gen) tableObligations(prop string) []*Obligation {
	var out []*Obligation
	for _, t := range g.spec.Tables {
		if prop != "" && !contains(t.Props, prop) {
			continue
		}
		pos := fmt.Sprintf("%s:%d", t.File, t.Line)
		fname := "table." + t.Label
		fail := func(suffix, why, p string) {
			out = append(out, &Obligation{Name: fname + "#" + suffix, Func: fname, Kind: "table", Expect: "unsat", Goal: "false", Reach: "true", Props: t.Props, Src: why, Pos: p})
		}
		pass := func(suffix, why string) {
			out = append(out, &Obligation{Name: fname + "#" + suffix, Func: fname, Kind: "table", Expect: "unsat", Goal: "true", Reach: "true", Props: t.Props, Src: why, Pos: pos})
		}
		gl, _ := g.pkg.Members[t.Global].(*ssa.Global)
		if gl == nil {
			fail("anchor#global-missing", "package-level variable "+t.Global+" no longer exists", pos)
			continue
		}
		// every function body of the package, and the initialiser
		var fns []*ssa.Function
		var keys []string
		for k := range g.funcsByKey {
			keys = append(keys, k)
		}
		sort.Strings(keys)
		for _, k := range keys {
			if f := g.funcsByKey[k]; f.Blocks != nil && f != g.pkg.Func("init") {
				fns = append(fns, f)
			}
		}
		initFn := g.pkg.Func("init")
		actual := map[string]string{}
		var built ssa.Value
		if initFn != nil {
			for _, b := range initFn.Blocks {
				for _, in := range b.Instrs {
					if st, ok := in.(*ssa.Store); ok && st.Addr == ssa.Value(gl) {
						if built != nil {
							fail("init#stored-twice", t.Global+" is assigned more than once by the package initialiser", g.fset.Position(st.Pos()).String())
						}
						built = st.Val
					}
				}
			}
		}
		if _, ok := built.(*ssa.MakeMap); !ok {
			fail("init#not-a-literal", t.Global+" is not initialised from a map literal in the package initialiser", pos)
			continue
		}
		for _, b := range initFn.Blocks {
			for _, in := range b.Instrs {
				mu, ok := in.(*ssa.MapUpdate)
				if !ok || mu.Map != built {
					continue
				}
				var kv ssa.Value = mu.Key
				if cv, ok := kv.(*ssa.Convert); ok {
					kv = cv.X
				}
				kc, ok := kv.(*ssa.Const)
				if !ok || kc.Value == nil || kc.Value.Kind() != constant.Int {
					fail("init#non-constant-key", "an entry of "+t.Global+" has a key that is not an integer constant", g.fset.Position(mu.Pos()).String())
					continue
				}
				var fv ssa.Value = mu.Value
				if ct, ok := fv.(*ssa.ChangeType); ok {
					fv = ct.X
				}
				impl := g.resolveImplementer(fv)
				name := "?"
				if impl != nil {
					name = funcKey(impl)
				}
				k := kc.Value.ExactString()
				if prev, dup := actual[k]; dup && prev != name {
					fail("init#duplicate-key#"+k, fmt.Sprintf("key %s of %s is given two different functions", k, t.Global), g.fset.Position(mu.Pos()).String())
				}
				actual[k] = name
			}
		}
		var eks []string
		for k := range t.Entries {
			eks = append(eks, k)
		}
		sort.Slice(eks, func(i, j int) bool {
			if len(eks[i]) != len(eks[j]) {
				return len(eks[i]) < len(eks[j])
			}
			return eks[i] < eks[j]
		})
		for _, k := range eks {
			want := t.Entries[k]
			got, ok := actual[k]
			switch {
			case !ok:
				fail("entry#"+k, fmt.Sprintf("%s[%s] should be %s but the table has no entry for %s", t.Global, k, want, k), pos)
			case got != want:
				fail("entry#"+k, fmt.Sprintf("%s[%s] should be %s but is %s", t.Global, k, want, got), pos)
			default:
				pass("entry#"+k, fmt.Sprintf("static: %s[%s] is %s", t.Global, k, want))
			}
		}
		var aks []string
		for k := range actual {
			aks = append(aks, k)
		}
		sort.Strings(aks)
		for _, k := range aks {
			if _, ok := t.Entries[k]; !ok {
				fail("extra#"+k, fmt.Sprintf("%s has an entry for key %s (%s) that the table contract does not list", t.Global, k, actual[k]), pos)
			}
		}
		// never written after initialisation: no store to the variable, no map update / delete through it
		n := 0
		for _, f := range fns {
			n++
			for _, b := range f.Blocks {
				for _, in := range b.Instrs {
					bad := ""
					switch x := in.(type) {
					case *ssa.Store:
						if x.Addr == ssa.Value(gl) {
							bad = "assigns " + t.Global
						}
					case *ssa.MapUpdate:
						if ld, ok := x.Map.(*ssa.UnOp); ok && ld.X == ssa.Value(gl) {
							bad = "updates an entry of " + t.Global
						}
					case *ssa.Call:
						if bi, ok := x.Call.Value.(*ssa.Builtin); ok && (bi.Name() == "delete" || bi.Name() == "clear") && len(x.Call.Args) > 0 {
							if ld, ok := x.Call.Args[0].(*ssa.UnOp); ok && ld.X == ssa.Value(gl) {
								bad = "removes entries of " + t.Global
							}
						}
					}
					if bad != "" {
						fail("written-in#"+funcKey(f), funcKey(f)+" "+bad+" after initialisation", g.fset.Position(in.Pos()).String())
					}
				}
			}
		}
		pass("init-only", fmt.Sprintf("static: %d function bodies scanned for writes to %s", n, t.Global))
	}
	return out
}
