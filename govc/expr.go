package main

// expr.go: translation of contract expressions (Go syntax + spec extensions) to SMT.

import (
	"fmt"
	"go/ast"
	"go/constant"
	"go/token"
	"go/types"
	"strconv"
	"strings"

	"golang.org/x/tools/go/ssa"
)

type Env struct {
	fv     *FuncVC
	st     *State
	old    *State
	vars   map[string]*Val
	locals bool               // resolve identifiers to local cells (invariants / asserts)
	at     *ssa.BasicBlock    // program point for local resolution
	errs   []string
	allocOld string // value of alloc counter in old state (for fresh())
	fnForLocals *ssa.Function
	inOld bool
	calleeView bool // translating a callee's contract at a call site (atlock.go)
	oldVars map[string]*Val // values of captured variables in the old state (call-site view of closure contracts)
}

func (e *Env) errf(format string, a ...interface{}) *Val {
	e.errs = append(e.errs, fmt.Sprintf(format, a...))
	return &Val{T: "false", Typ: types.Typ[types.Bool]}
}

func (e *Env) child() *Env {
	n := *e
	n.vars = map[string]*Val{}
	for k, v := range e.vars {
		n.vars[k] = v
	}
	return &n
}

func (e *Env) sorts() *Sorts { return e.fv.g.sorts }

// resolveType resolves a Go type expression text (e.g. "uint32", "*NFSNode", "[]byte", "string").
func (g *Gen) resolveType(s string) types.Type {
	s = strings.TrimSpace(s)
	switch {
	case strings.HasPrefix(s, "*"):
		if t := g.resolveType(s[1:]); t != nil {
			return types.NewPointer(t)
		}
		return nil
	case strings.HasPrefix(s, "[]"):
		if t := g.resolveType(s[2:]); t != nil {
			return types.NewSlice(t)
		}
		return nil
	case strings.HasPrefix(s, "[") && !strings.HasPrefix(s, "[]"):
		if k := strings.Index(s, "]"); k > 0 {
			if n, err := strconv.Atoi(s[1:k]); err == nil {
				if t := g.resolveType(s[k+1:]); t != nil {
					return types.NewArray(t, int64(n))
				}
			}
		}
		return nil
	case strings.HasPrefix(s, "map["):
		depth := 0
		for i := 3; i < len(s); i++ {
			if s[i] == '[' {
				depth++
			} else if s[i] == ']' {
				depth--
				if depth == 0 {
					k := g.resolveType(s[4:i])
					v := g.resolveType(s[i+1:])
					if k != nil && v != nil {
						return types.NewMap(k, v)
					}
					return nil
				}
			}
		}
		return nil
	}
	if s == "real" {
		return types.Typ[types.Float64]
	}
	if s == "mathint" {
		return types.Typ[types.UntypedInt]
	}
	if obj := types.Universe.Lookup(s); obj != nil {
		if tn, ok := obj.(*types.TypeName); ok {
			return tn.Type()
		}
	}
	if i := strings.LastIndex(s, "."); i >= 0 {
		pk, name := s[:i], s[i+1:]
		for _, imp := range g.allPackages() {
			if imp.Name() == pk || imp.Path() == pk {
				if obj := imp.Scope().Lookup(name); obj != nil {
					if tn, ok := obj.(*types.TypeName); ok {
						return tn.Type()
					}
				}
			}
		}
		return nil
	}
	if obj := g.tpkg.Scope().Lookup(s); obj != nil {
		if tn, ok := obj.(*types.TypeName); ok {
			return tn.Type()
		}
	}
	return nil
}

func (g *Gen) allPackages() []*types.Package {
	var out []*types.Package
	seen := map[*types.Package]bool{}
	var walk func(p *types.Package)
	walk = func(p *types.Package) {
		if seen[p] {
			return
		}
		seen[p] = true
		out = append(out, p)
		for _, i := range p.Imports() {
			walk(i)
		}
	}
	walk(g.tpkg)
	return out
}

func boolVal(t string) *Val { return &Val{T: t, Typ: types.Typ[types.Bool]} }
func intVal(t string) *Val  { return &Val{T: t, Typ: types.Typ[types.UntypedInt]} }

func (e *Env) tr(x ast.Expr) *Val {
	switch n := x.(type) {
	case *ast.ParenExpr:
		return e.tr(n.X)
	case *ast.BasicLit:
		switch n.Kind {
		case token.INT:
			c := constant.MakeFromLiteral(n.Value, token.INT, 0)
			s, _ := constToTerm(c, nil)
			return intVal(s)
		case token.FLOAT:
			c := constant.MakeFromLiteral(n.Value, token.FLOAT, 0)
			s, _ := constToTerm(c, types.Typ[types.Float64])
			return &Val{T: s, Typ: types.Typ[types.UntypedFloat]}
		case token.STRING:
			s, _ := strconv.Unquote(n.Value)
			return &Val{T: e.fv.g.strConst(s), Typ: types.Typ[types.String]}
		case token.CHAR:
			c := constant.MakeFromLiteral(n.Value, token.CHAR, 0)
			s, _ := constToTerm(c, nil)
			return intVal(s)
		}
	case *ast.Ident:
		return e.ident(n.Name)
	case *ast.UnaryExpr:
		v := e.tr(n.X)
		switch n.Op {
		case token.NOT:
			return boolVal(not(v.T))
		case token.SUB:
			if sortIsReal(e, v) {
				return &Val{T: "(- " + v.T + ")", Typ: v.Typ}
			}
			return &Val{T: "(- " + v.T + ")", Typ: v.Typ}
		case token.AND:
			return v
		}
	case *ast.StarExpr:
		v := e.tr(n.X)
		p := e.fv.placeFromPointer(v)
		return e.fv.loadPlace(e.st, p)
	case *ast.BinaryExpr:
		return e.binary(n)
	case *ast.SelectorExpr:
		return e.selector(n)
	case *ast.IndexExpr:
		return e.index(n)
	case *ast.SliceExpr:
		return e.sliceExpr(n)
	case *ast.CallExpr:
		return e.call(n)
	}
	return e.errf("unsupported spec expression %T", x)
}

func sortIsReal(e *Env, v *Val) bool {
	return v.Typ != nil && (isFloat(v.Typ) || isUntypedFloat(v.Typ))
}

func isUntypedFloat(t types.Type) bool {
	b, ok := t.(*types.Basic)
	return ok && b.Kind() == types.UntypedFloat
}

func (e *Env) ident(name string) *Val {
	if e.inOld && e.oldVars != nil {
		if v, ok := e.oldVars[name]; ok {
			return v
		}
	}
	if e.inOld && e.fv.fn != nil && e.oldVars == nil {
		// a captured variable inside old(): its value in the old state
		for _, f := range e.fv.fn.FreeVars {
			if f.Name() == name {
				if pv, ok := e.fv.params[name]; ok {
					return e.fv.loadPlace(e.st, e.fv.placeFromPointer(pv))
				}
			}
		}
	}
	if v, ok := e.vars[name]; ok {
		return v
	}
	switch name {
	case "true":
		return boolVal("true")
	case "false":
		return boolVal("false")
	case "nil":
		return &Val{T: "0", Typ: types.Typ[types.UntypedNil]}
	}
	fv := e.fv
	if e.inOld && e.locals {
		// inside old(): a parameter name denotes its entry value
		if p, ok := fv.params[name]; ok {
			return p
		}
	}
	if e.locals && name == "ranged" && e.at != nil {
		// the slice a 'for ... range <expr>' loop iterates over, when <expr> is not a named variable:
		// the operand of the len() the loop head compares the index with
		for _, in := range e.at.Instrs {
			if bo, ok := in.(*ssa.BinOp); ok && bo.Op == token.LSS {
				if c, ok := bo.Y.(*ssa.Call); ok {
					if b, ok := c.Call.Value.(*ssa.Builtin); ok && b.Name() == "len" && len(c.Call.Args) == 1 {
						if v, ok := fv.regs[c.Call.Args[0]]; ok {
							return v
						}
					}
				}
			}
		}
		return e.errf("ranged: the loop head does not compare an index with len(<slice>)")
	}
	if e.locals && name == "visited" && e.at != nil {
		// visited set of the map iteration governing this loop: visited[k] for keys already yielded
		var best *ssa.Range
		for rng := range fv.mapIters {
			if rng.Block() == e.at || rng.Block().Dominates(e.at) {
				if best == nil || rng.Block().Index > best.Block().Index {
					best = rng
				}
			}
		}
		if best != nil {
			it := fv.mapIters[best]
			mt := best.X.Type().Underlying().(*types.Map)
			return &Val{T: fv.heapAt(e.st, it.visited, "(Array "+it.ksort+" Bool)"), Typ: types.NewArray(types.Typ[types.Bool], 1), mapKey: mt.Key()}
		}
	}
	if e.locals && fv.fn != nil {
		if a := fv.findLocal(name, e.at); a != nil {
			if e.inOld {
				return e.errf("local variable %s used inside old(): it has no value in the entry state (use oldhas/oldidx/oldabsidx with the key outside old)", name)
			}
			p := fv.placeOfAlloc(a)
			if fv.direct[a] {
				return fv.loadPlace(e.st, p)
			}
			if r, ok := fv.regs[a]; ok {
				v := fv.loadPlace(e.st, fv.placeFromPointer(r))
				// the cell of an address-taken local holds a value of its type (a decoder may have
				// overwritten it through the pointer: binary.Read(r, order, &cookie))
				if _, _, isInt := intRange(v.Typ); isInt && v.T != "" {
					fv.assumeType(v.T, v.Typ)
				}
				return v
			}
		}
	}
	// ghost variable
	if gt, ok := fv.g.spec.Ghosts[name]; ok {
		t := fv.g.resolveType(gt)
		if t == nil {
			return e.errf("ghost %s: unknown type %s", name, gt)
		}
		return &Val{T: fv.heapAt(e.st, "GH$"+name, fv.sortOf(t)), Typ: t}
	}
	// package-level object
	if obj := fv.g.tpkg.Scope().Lookup(name); obj != nil {
		switch o := obj.(type) {
		case *types.Const:
			s, ok := constToTerm(o.Val(), o.Type())
			if o.Val().Kind() == constant.String {
				return &Val{T: fv.g.strConst(constant.StringVal(o.Val())), Typ: o.Type()}
			}
			if ok {
				return &Val{T: s, Typ: o.Type()}
			}
		case *types.Var:
			if g, ok := fv.g.pkg.Members[name].(*ssa.Global); ok {
				n, s := fv.globalVar(g)
				return &Val{T: fv.heapAt(e.st, n, s), Typ: o.Type()}
			}
		}
	}
	return e.errf("unknown identifier %s", name)
}

func (fv *FuncVC) findLocal(name string, at *ssa.BasicBlock) *ssa.Alloc {
	cands := fv.localsByName[name]
	var best *ssa.Alloc
	bestSeq := -1
	for _, a := range cands {
		if at != nil && !(a.Block() == at || a.Block().Dominates(at)) {
			continue
		}
		seq := a.Block().Index*100000 + instrIndex(a)
		if seq > bestSeq {
			best, bestSeq = a, seq
		}
	}
	if best == nil && len(cands) == 1 {
		return cands[0]
	}
	return best
}

func instrIndex(in ssa.Instruction) int {
	for i, x := range in.Block().Instrs {
		if x == in {
			return i
		}
	}
	return 0
}

func (e *Env) binary(n *ast.BinaryExpr) *Val {
	a := e.tr(n.X)
	b := e.tr(n.Y)
	a, b = e.unify(a, b)
	switch n.Op {
	case token.LAND:
		return boolVal(and(a.T, b.T))
	case token.LOR:
		return boolVal(or(a.T, b.T))
	case token.EQL:
		return boolVal(e.fv.equal(a, b))
	case token.NEQ:
		return boolVal(not(e.fv.equal(a, b)))
	case token.LSS, token.LEQ, token.GTR, token.GEQ:
		sym := map[token.Token]string{token.LSS: "<", token.LEQ: "<=", token.GTR: ">", token.GEQ: ">="}[n.Op]
		return boolVal("(" + sym + " " + a.T + " " + b.T + ")")
	case token.ADD:
		if a.Typ != nil && isString(a.Typ) {
			return e.fv.strConcat(a, b, a.Typ)
		}
		return &Val{T: "(+ " + a.T + " " + b.T + ")", Typ: mathType(a, b)}
	case token.SUB:
		return &Val{T: "(- " + a.T + " " + b.T + ")", Typ: mathType(a, b)}
	case token.MUL:
		return &Val{T: "(* " + a.T + " " + b.T + ")", Typ: mathType(a, b)}
	case token.QUO:
		if sortIsReal(e, a) || sortIsReal(e, b) {
			return &Val{T: "(/ " + a.T + " " + b.T + ")", Typ: mathType(a, b)}
		}
		return &Val{T: "(div " + a.T + " " + b.T + ")", Typ: mathType(a, b)}
	case token.REM:
		return &Val{T: "(mod " + a.T + " " + b.T + ")", Typ: mathType(a, b)}
	case token.AND, token.OR, token.XOR, token.AND_NOT, token.SHL, token.SHR:
		t := a.Typ
		if t == nil || !isTypedInt(t) {
			t = b.Typ
		}
		if t == nil || !isTypedInt(t) {
			t = types.Typ[types.Uint64]
		}
		if n.Op == token.SHL || n.Op == token.SHR {
			// spec shifts are mathematical (no wrap) for SHL by constant
			if c, ok := constOf(b); ok {
				k := uint(c.Uint64())
				if n.Op == token.SHL {
					return &Val{T: fmt.Sprintf("(* %s %s)", a.T, pow2(k).String()), Typ: a.Typ}
				}
				return &Val{T: fmt.Sprintf("(div %s %s)", a.T, pow2(k).String()), Typ: a.Typ}
			}
			return e.errf("spec shift by non-constant")
		}
		return e.fv.bitwise(n.Op, a, b, t)
	}
	return e.errf("unsupported operator %s", n.Op)
}

func isTypedInt(t types.Type) bool {
	_, _, ok := intRange(t)
	return ok
}

// mathType: result type of spec arithmetic (mathematical; no wrap): keeps float-ness
func mathType(a, b *Val) types.Type {
	if a.Typ != nil && (isFloat(a.Typ) || isUntypedFloat(a.Typ)) {
		return types.Typ[types.Float64]
	}
	if b.Typ != nil && (isFloat(b.Typ) || isUntypedFloat(b.Typ)) {
		return types.Typ[types.Float64]
	}
	return types.Typ[types.UntypedInt]
}

// unify coerces untyped operands (nil, int literal vs real) to the other side's sort.
func (e *Env) unify(a, b *Val) (*Val, *Val) {
	fix := func(x, other *Val) *Val {
		if other.Typ == nil || x.Typ == nil {
			return x
		}
		if isUntypedNil(x.Typ) {
			return &Val{T: e.sorts().zero(other.Typ), Typ: other.Typ}
		}
		if (isFloat(other.Typ) || isUntypedFloat(other.Typ)) && !(isFloat(x.Typ) || isUntypedFloat(x.Typ)) {
			if _, ok := constOf(x); ok {
				t := x.T
				if strings.HasPrefix(t, "(- ") {
					t = "(- " + t[3:len(t)-1] + ".0)"
				} else {
					t += ".0"
				}
				return &Val{T: t, Typ: types.Typ[types.UntypedFloat]}
			}
			return &Val{T: "(to_real " + x.T + ")", Typ: types.Typ[types.Float64]}
		}
		return x
	}
	return fix(a, b), fix(b, a)
}

func (e *Env) selector(n *ast.SelectorExpr) *Val {
	// package-qualified constant?
	if id, ok := n.X.(*ast.Ident); ok {
		if _, isVar := e.vars[id.Name]; !isVar && (e.fv.fn == nil || !e.locals || e.fv.findLocal(id.Name, e.at) == nil) {
			for _, p := range e.fv.g.allPackages() {
				if p.Name() == id.Name && p != e.fv.g.tpkg {
					if obj := p.Scope().Lookup(n.Sel.Name); obj != nil {
						switch o := obj.(type) {
						case *types.Const:
							if o.Val().Kind() == constant.String {
								return &Val{T: e.fv.g.strConst(constant.StringVal(o.Val())), Typ: o.Type()}
							}
							s, _ := constToTerm(o.Val(), o.Type())
							return &Val{T: s, Typ: o.Type()}
						case *types.Var:
							name := "G$" + sanitize(p.Path()) + "." + o.Name()
							return &Val{T: e.fv.heapAt(e.st, name, e.fv.sortOf(o.Type())), Typ: o.Type()}
						}
					}
				}
			}
		}
	}
	base := e.tr(n.X)
	return e.field(base, n.Sel.Name)
}

func (e *Env) field(base *Val, name string) *Val {
	if base.Typ == nil {
		return e.errf("field %s of untyped value", name)
	}
	t := base.Typ
	if p, ok := t.Underlying().(*types.Pointer); ok {
		st, ok := p.Elem().Underlying().(*types.Struct)
		if !ok {
			return e.errf("field %s of non-struct pointer %s", name, t)
		}
		idx, path := findField(st, name)
		if idx < 0 {
			return e.errf("no field %s in %s", name, t)
		}
		pl := e.fv.placeFromPointer(base)
		for _, i := range path {
			pl = e.fv.fieldPlace(pl, i)
			// embedded pointer: need deref
			if pp, ok := pl.Typ.Underlying().(*types.Pointer); ok && i != path[len(path)-1] {
				v := e.fv.loadPlace(e.st, pl)
				v.Typ = pp
				pl = e.fv.placeFromPointer(v)
			}
		}
		v := e.fv.loadPlace(e.st, pl)
		return v
	}
	if st, ok := t.Underlying().(*types.Struct); ok {
		idx, path := findField(st, name)
		if idx < 0 {
			return e.errf("no field %s in %s", name, t)
		}
		cur := base
		for _, i := range path {
			cst := cur.Typ.Underlying().(*types.Struct)
			sn := e.sorts().structSort(cur.Typ, cst)
			cur = &Val{T: "(" + fieldAcc(sn, i) + " " + cur.T + ")", Typ: cst.Field(i).Type()}
		}
		return cur
	}
	return e.errf("field %s of %s", name, t)
}

// findField finds a (possibly promoted through embedded structs by value) field; returns index path.
func findField(st *types.Struct, name string) (int, []int) {
	for i := 0; i < st.NumFields(); i++ {
		if st.Field(i).Name() == name {
			return i, []int{i}
		}
	}
	for i := 0; i < st.NumFields(); i++ {
		f := st.Field(i)
		if f.Embedded() {
			if sub, ok := f.Type().Underlying().(*types.Struct); ok {
				if j, p := findField(sub, name); j >= 0 {
					return j, append([]int{i}, p...)
				}
			}
		}
	}
	return -1, nil
}

func (e *Env) index(n *ast.IndexExpr) *Val {
	base := e.tr(n.X)
	idx := e.tr(n.Index)
	if base.Typ == nil {
		return e.errf("index of untyped")
	}
	switch bt := base.Typ.Underlying().(type) {
	case *types.Slice:
		hn, hs := e.fv.g.elemHeap(bt.Elem())
		h := e.fv.heapAt(e.st, hn, hs)
		return &Val{T: fmt.Sprintf("(select (select %s (s.arr %s)) (+ (s.off %s) %s))", h, base.T, base.T, idx.T), Typ: bt.Elem()}
	case *types.Basic:
		if isString(bt) {
			return &Val{T: "(sat " + base.T + " " + idx.T + ")", Typ: types.Typ[types.Uint8]}
		}
	case *types.Array:
		return &Val{T: "(select " + base.T + " " + idx.T + ")", Typ: bt.Elem()}
	case *types.Map:
		idx, _ = e.unify(idx, &Val{T: "", Typ: bt.Key()})
		_, vn, _, _, vs := e.fv.mapParts(bt)
		vh := e.fv.heapAt(e.st, vn, vs)
		return &Val{T: fmt.Sprintf("(select (select %s %s) %s)", vh, base.T, idx.T), Typ: bt.Elem()}
	}
	return e.errf("index of %s", base.Typ)
}

func (e *Env) sliceExpr(n *ast.SliceExpr) *Val {
	base := e.tr(n.X)
	lo := "0"
	if n.Low != nil {
		lo = e.tr(n.Low).T
	}
	if base.Typ != nil && isString(base.Typ) {
		hi := "(slen " + base.T + ")"
		if n.High != nil {
			hi = e.tr(n.High).T
		}
		return e.fv.substr(base, lo, hi, base.Typ)
	}
	if _, ok := base.Typ.Underlying().(*types.Slice); ok {
		hi := "(s.len " + base.T + ")"
		if n.High != nil {
			hi = e.tr(n.High).T
		}
		return &Val{T: fmt.Sprintf("(mk-slice (s.arr %s) (+ (s.off %s) %s) (- %s %s) (- (s.cap %s) %s))", base.T, base.T, lo, hi, lo, base.T, lo), Typ: base.Typ}
	}
	return e.errf("slice expr of %s", base.Typ)
}

func (e *Env) call(n *ast.CallExpr) *Val {
	fname := ""
	switch f := n.Fun.(type) {
	case *ast.Ident:
		fname = f.Name
	case *ast.SelectorExpr:
		// method-like spec call x.f(...) unsupported; pkg.Type conversion?
		if id, ok := f.X.(*ast.Ident); ok {
			fname = id.Name + "." + f.Sel.Name
		}
	case *ast.ParenExpr:
		// (*T)(x) conversions
		return e.errf("unsupported call form")
	}
	fv := e.fv
	switch fname {
	case "implies":
		a, b := e.tr(n.Args[0]), e.tr(n.Args[1])
		return boolVal(implies(a.T, b.T))
	case "iff":
		a, b := e.tr(n.Args[0]), e.tr(n.Args[1])
		return boolVal(eq(a.T, b.T))
	case "ite":
		c, a, b := e.tr(n.Args[0]), e.tr(n.Args[1]), e.tr(n.Args[2])
		a, b = e.unify(a, b)
		t := a.Typ
		if t == nil || isUntypedNil(t) {
			t = b.Typ
		}
		return &Val{T: ite(c.T, a.T, b.T), Typ: t}
	case "atlock":
		return e.trAtlock(n)
	case "old":
		ne := *e
		if e.old != nil {
			ne.st = e.old
		}
		ne.inOld = true
		r := ne.tr(n.Args[0])
		e.errs = append(e.errs, ne.errs[len(e.errs):]...)
		return r
	case "len":
		v := e.tr(n.Args[0])
		if v.Typ == nil {
			return e.errf("len of untyped")
		}
		switch u := v.Typ.Underlying().(type) {
		case *types.Slice:
			return intVal("(s.len " + v.T + ")")
		case *types.Basic:
			return intVal("(slen " + v.T + ")")
		case *types.Map:
			_, _, cn, _, _ := fv.mapParts(u)
			fv.mapCardFactsAt(e.st, v.T, u)
			return intVal("(ite (= " + v.T + " 0) 0 (select " + fv.heapAt(e.st, cn, "(Array Int Int)") + " " + v.T + "))")
		case *types.Array:
			return intVal(fmt.Sprintf("%d", u.Len()))
		}
		return e.errf("len of %s", v.Typ)
	case "cap":
		v := e.tr(n.Args[0])
		return intVal("(s.cap " + v.T + ")")
	case "oldhas", "oldidx": // oldhas(m, k) / oldidx(m, k): membership / value in the OLD state, key evaluated in the current state
		oe := *e
		if e.old != nil {
			oe.st = e.old
		}
		oe.inOld = true
		m := oe.tr(n.Args[0])
		e.errs = append(e.errs, oe.errs[len(e.errs):]...)
		k := e.tr(n.Args[1])
		mt, ok := m.Typ.Underlying().(*types.Map)
		if !ok {
			return e.errf("%s on non-map", fname)
		}
		dn, vn, _, ds, vs := fv.mapParts(mt)
		if fname == "oldhas" {
			return boolVal(fmt.Sprintf("(and (not (= %s 0)) (select (select %s %s) %s))", m.T, fv.heapAt(oe.st, dn, ds), m.T, k.T))
		}
		return &Val{T: fmt.Sprintf("(select (select %s %s) %s)", fv.heapAt(oe.st, vn, vs), m.T, k.T), Typ: mt.Elem()}
	case "mapsame": // mapsame(m): map m has the same keys and values as in the old state
		m := e.tr(n.Args[0])
		mt, ok := m.Typ.Underlying().(*types.Map)
		if !ok {
			return e.errf("mapsame on non-map")
		}
		dn, vn, cn, ds, vs := fv.mapParts(mt)
		old := e.old
		if old == nil {
			old = e.st
		}
		return boolVal(fmt.Sprintf("(and (= (select %s %s) (select %s %s)) (= (select %s %s) (select %s %s)) (= (select %s %s) (select %s %s)))",
			fv.heapAt(e.st, dn, ds), m.T, fv.heapAt(old, dn, ds), m.T,
			fv.heapAt(e.st, vn, vs), m.T, fv.heapAt(old, vn, vs), m.T,
			fv.heapAt(e.st, cn, "(Array Int Int)"), m.T, fv.heapAt(old, cn, "(Array Int Int)"), m.T))
	case "has": // has(m, k): key k in map m
		m := e.tr(n.Args[0])
		k := e.tr(n.Args[1])
		mt, ok := m.Typ.Underlying().(*types.Map)
		if !ok {
			return e.errf("has on non-map")
		}
		dn, _, _, ds, _ := fv.mapParts(mt)
		d := fv.heapAt(e.st, dn, ds)
		return boolVal(fmt.Sprintf("(and (not (= %s 0)) (select (select %s %s) %s))", m.T, d, m.T, k.T))
	case "indom": // indom(m, k): raw domain bit of map m at k (has(m,k) for a non-nil map); usable as a trigger
		m := e.tr(n.Args[0])
		k := e.tr(n.Args[1])
		mt, ok := m.Typ.Underlying().(*types.Map)
		if !ok {
			return e.errf("indom on non-map")
		}
		dn, _, _, ds, _ := fv.mapParts(mt)
		d := fv.heapAt(e.st, dn, ds)
		return boolVal(fmt.Sprintf("(select (select %s %s) %s)", d, m.T, k.T))
	case "fresh": // fresh(p): p allocated during the call
		v := e.tr(n.Args[0])
		t := v.T
		if _, ok := v.Typ.Underlying().(*types.Slice); ok {
			t = "(s.arr " + v.T + ")"
		}
		return boolVal("(>= " + t + " " + e.allocOld + ")")
	case "allocated": // allocated(p): p is a non-nil reference allocated in the state the expression is evaluated in
		v := e.tr(n.Args[0])
		t := v.T
		if _, ok := v.Typ.Underlying().(*types.Slice); ok {
			t = "(s.arr " + v.T + ")"
		}
		return boolVal("(and (< 0 " + t + ") (< " + t + " " + fv.heapAt(e.st, "alloc", "Int") + "))")
	case "arr": // arr(s): array identity of slice s
		v := e.tr(n.Args[0])
		return intVal("(s.arr " + v.T + ")")
	case "off":
		v := e.tr(n.Args[0])
		return intVal("(s.off " + v.T + ")")
	case "typeof": // typeof(iface) == typeid(T)
		v := e.tr(n.Args[0])
		return intVal("(i.typ " + v.T + ")")
	case "valof":
		v := e.tr(n.Args[0])
		return intVal("(i.val " + v.T + ")")
	case "typeid":
		if len(n.Args) == 1 {
			if t := fv.g.resolveType(exprText(n.Args[0])); t != nil {
				return intVal(fmt.Sprintf("%d", fv.g.sorts.typeID(t)))
			}
		}
		return e.errf("typeid: unknown type")
	case "closurefn": // closurefn(f): identity of the code of closure value f
		v := e.tr(n.Args[0])
		fv.g.declareGlobal("clofn", "(declare-fun clofn (Int) Int)")
		return intVal("(clofn " + v.T + ")")
	case "closurecap": // closurecap(f, i): address of the i-th captured variable cell of closure f
		v := e.tr(n.Args[0])
		i := e.tr(n.Args[1])
		fv.g.declareGlobal("clobind", "(declare-fun clobind (Int Int) Int)")
		return intVal("(clobind " + v.T + " " + i.T + ")")
	case "funcid": // funcid(Name): identity of the named function / anonymous function
		key := exprText(n.Args[0])
		if bl, ok := n.Args[0].(*ast.BasicLit); ok && bl.Kind == token.STRING {
			key, _ = strconv.Unquote(bl.Value)
		}
		if _, ok := fv.g.funcsByKey[key]; !ok {
			return e.errf("funcid: unknown function %s", key)
		}
		return intVal(fmt.Sprintf("%d", fv.g.fnID(key)))
	case "absidx": // absidx(s, j): element of slice s's backing array at ABSOLUTE index j (trigger-friendly)
		sv, j := e.tr(n.Args[0]), e.tr(n.Args[1])
		st, ok := sv.Typ.Underlying().(*types.Slice)
		if !ok {
			return e.errf("absidx on non-slice")
		}
		hn, hs := fv.g.elemHeap(st.Elem())
		h := fv.heapAt(e.st, hn, hs)
		return &Val{T: fmt.Sprintf("(select (select %s (s.arr %s)) %s)", h, sv.T, j.T), Typ: st.Elem()}
	case "oldabsidx": // oldabsidx(s, j): element at absolute index j (current-state expression) of slice s as it was in the old state
		oe := *e
		if e.old != nil {
			oe.st = e.old
		}
		oe.inOld = true
		sv := oe.tr(n.Args[0])
		e.errs = append(e.errs, oe.errs[len(e.errs):]...)
		j := e.tr(n.Args[1])
		st, ok := sv.Typ.Underlying().(*types.Slice)
		if !ok {
			return e.errf("oldabsidx on non-slice")
		}
		hn, hs := fv.g.elemHeap(st.Elem())
		h := fv.heapAt(oe.st, hn, hs)
		return &Val{T: fmt.Sprintf("(select (select %s (s.arr %s)) %s)", h, sv.T, j.T), Typ: st.Elem()}
	case "setfield": // setfield(x, F, v): struct value x with field F replaced by v
		x, v := e.tr(n.Args[0]), e.tr(n.Args[2])
		id, ok := n.Args[1].(*ast.Ident)
		if !ok || x.Typ == nil {
			return e.errf("setfield(x, Field, v)")
		}
		st, ok := x.Typ.Underlying().(*types.Struct)
		if !ok {
			return e.errf("setfield on non-struct")
		}
		idx, _ := findField(st, id.Name)
		if idx < 0 {
			return e.errf("setfield: no field %s", id.Name)
		}
		v, _ = e.unify(v, &Val{Typ: st.Field(idx).Type()})
		return &Val{T: fv.updatePath(x.T, []pathStep{{field: idx, typ: x.Typ}}, v.T), Typ: x.Typ}
	case "setidx": // setidx(a, i, v): array a updated at i
		a, i, v := e.tr(n.Args[0]), e.tr(n.Args[1]), e.tr(n.Args[2])
		return &Val{T: "(store " + a.T + " " + i.T + " " + v.T + ")", Typ: a.Typ}
	case "ptrof": // ptrof(x, *T): reinterpret an int / interface payload as a pointer of type *T
		v := e.tr(n.Args[0])
		t := fv.g.resolveType(exprText(n.Args[1]))
		if t == nil {
			return e.errf("ptrof: unknown type %s", exprText(n.Args[1]))
		}
		term := v.T
		if v.Typ != nil {
			if _, ok := v.Typ.Underlying().(*types.Interface); ok {
				term = "(i.val " + v.T + ")"
			}
		}
		return &Val{T: term, Typ: t}
	case "unboxed": // unboxed(x, T): payload of interface value x as a value of type T
		v := e.tr(n.Args[0])
		t := fv.g.resolveType(exprText(n.Args[1]))
		if t == nil {
			return e.errf("unboxed: unknown type %s", exprText(n.Args[1]))
		}
		return &Val{T: fv.unbox("(i.val "+v.T+")", t), Typ: t}
	case "isnil":
		v := e.tr(n.Args[0])
		switch v.Typ.Underlying().(type) {
		case *types.Slice:
			return boolVal("(= (s.arr " + v.T + ") 0)")
		case *types.Interface:
			return boolVal("(= (i.typ " + v.T + ") 0)")
		}
		return boolVal("(= " + v.T + " 0)")
	case "forall", "exists":
		return e.quant(fname, n)
	case "real":
		v := e.tr(n.Args[0])
		if sortIsReal(e, v) {
			return v
		}
		return &Val{T: "(to_real " + v.T + ")", Typ: types.Typ[types.Float64]}
	case "min", "max":
		a, b := e.tr(n.Args[0]), e.tr(n.Args[1])
		a, b = e.unify(a, b)
		op := "<="
		if fname == "max" {
			op = ">="
		}
		return &Val{T: fmt.Sprintf("(ite (%s %s %s) %s %s)", op, a.T, b.T, a.T, b.T), Typ: mathType(a, b)}
	case "held": // held(mu) lock token state: 0 none, n>0 read count, -1 write
		return intVal("(select " + fv.heapAt(e.st, "LOCK", "(Array Int Int)") + " " + e.addrOf(n.Args[0]) + ")")
	case "isconst": // isconst(argN): the argument at this call site is a literal constant in the source
		v := e.tr(n.Args[0])
		if _, ok := constOf(v); ok {
			return boolVal("true")
		}
		return boolVal("false")
	case "oncedone": // oncedone(x.once): this sync.Once has fired
		return boolVal("(select " + fv.heapAt(e.st, "ONCE", "(Array Int Bool)") + " " + e.addrOf(n.Args[0]) + ")")
	case "addr": // addr(x.f): opaque address of a field (identity only)
		return intVal(e.addrOf(n.Args[0]))
	}
	// conversions to Go types: uint32(x), int(x), int64(x), string(x) ...
	if t := fv.g.resolveType(fname); t != nil && len(n.Args) == 1 {
		v := e.tr(n.Args[0])
		if isInteger(t) {
			if c, ok := constOf(v); ok {
				lo, hi, _ := intRange(t)
				if c.Cmp(lo) >= 0 && c.Cmp(hi) <= 0 {
					return &Val{T: v.T, Typ: t}
				}
			}
			if v.Typ != nil && isTypedInt(v.Typ) {
				lo, hi, _ := intRange(t)
				flo, fhi, _ := intRange(v.Typ)
				if flo.Cmp(lo) >= 0 && fhi.Cmp(hi) <= 0 {
					return &Val{T: v.T, Typ: t}
				}
			}
			return &Val{T: wrapInt(v.T, t, "mod"), Typ: t}
		}
		if isFloat(t) {
			if sortIsReal(e, v) {
				return &Val{T: v.T, Typ: t}
			}
			return &Val{T: "(to_real " + v.T + ")", Typ: t}
		}
		return &Val{T: v.T, Typ: t}
	}
	// spec function
	if sf, ok := fv.g.spec.SpecFuns[fname]; ok {
		return e.specCall(sf, n.Args)
	}
	return e.errf("unknown spec function %s", fname)
}

// addrOf returns the address (opaque identity) of an l-value expression such as x.mu or &x.mu.
func (e *Env) addrOf(x ast.Expr) string {
	switch n := x.(type) {
	case *ast.ParenExpr:
		return e.addrOf(n.X)
	case *ast.UnaryExpr:
		if n.Op == token.AND {
			return e.addrOf(n.X)
		}
	case *ast.Ident:
		// addr(buf) for an address-taken local (e.g. 'var buf bytes.Buffer'): the reference of its cell
		if e.locals && e.fv.fn != nil {
			if a := e.fv.findLocal(n.Name, e.at); a != nil && !e.fv.direct[a] {
				if r, ok := e.fv.regs[a]; ok {
					return r.T
				}
			}
		}
	case *ast.SelectorExpr:
		base := e.tr(n.X)
		if base.Typ != nil {
			if p, ok := base.Typ.Underlying().(*types.Pointer); ok {
				if st, ok := p.Elem().Underlying().(*types.Struct); ok {
					if idx, path := findField(st, n.Sel.Name); idx >= 0 {
						pl := e.fv.placeFromPointer(base)
						for _, i := range path {
							pl = e.fv.fieldPlace(pl, i)
						}
						if _, isPtr := pl.Typ.Underlying().(*types.Pointer); isPtr {
							// field holds a pointer to the mutex: the lock identity is the pointer value
							return e.fv.loadPlace(e.st, pl).T
						}
						return e.fv.placeToValue(pl, pl.Typ)
					}
				}
			}
		}
	}
	v := e.tr(x)
	return e.lockID(v)
}

func (e *Env) lockID(v *Val) string {
	if v.Place != nil {
		return e.fv.placeToValue(v.Place, v.Typ)
	}
	return v.T
}

func exprText(x ast.Expr) string {
	switch n := x.(type) {
	case *ast.Ident:
		return n.Name
	case *ast.StarExpr:
		return "*" + exprText(n.X)
	case *ast.SelectorExpr:
		return exprText(n.X) + "." + n.Sel.Name
	case *ast.ArrayType:
		if n.Len == nil {
			return "[]" + exprText(n.Elt)
		}
	}
	return "?"
}

func (e *Env) quant(kind string, n *ast.CallExpr) *Val {
	// forall(i, lo, hi, body)  or  forall(x T, body) written as forall(x, T, body)
	if len(n.Args) == 5 {
		// forall(i, lo, hi, body, trigger): explicit e-matching pattern
		id, ok := n.Args[0].(*ast.Ident)
		if !ok {
			return e.errf("%s: first arg must be identifier", kind)
		}
		lo, hi := e.tr(n.Args[1]), e.tr(n.Args[2])
		ne := e.child()
		bv := "q!" + id.Name
		ne.vars[id.Name] = intVal(bv)
		body := ne.tr(n.Args[3])
		pat := ne.tr(n.Args[4])
		e.errs = append(e.errs, ne.errs[len(e.errs):]...)
		rng := fmt.Sprintf("(and (<= %s %s) (< %s %s))", lo.T, bv, bv, hi.T)
		if kind == "forall" {
			return boolVal(fmt.Sprintf("(forall ((%s Int)) (! (=> %s %s) :pattern (%s)))", bv, rng, body.T, pat.T))
		}
		return boolVal(fmt.Sprintf("(exists ((%s Int)) (! (and %s %s) :pattern (%s)))", bv, rng, body.T, pat.T))
	}
	if len(n.Args) == 4 {
		// forall(x, T, body, trigger): typed bound variable with an explicit pattern
		if id, ok := n.Args[0].(*ast.Ident); ok {
			tname := exprText(n.Args[1])
			if _, isVar := e.vars[tname]; !isVar && tname != "?" {
				if t := e.fv.g.resolveType(tname); t != nil {
					ne := e.child()
					bv := "q!" + id.Name
					ne.vars[id.Name] = &Val{T: bv, Typ: t}
					body := ne.tr(n.Args[2])
					pat := ne.tr(n.Args[3])
					e.errs = append(e.errs, ne.errs[len(e.errs):]...)
					facts := e.fv.typeFactsNoAlloc(bv, t)
					if kind == "forall" {
						return boolVal(fmt.Sprintf("(forall ((%s %s)) (! %s :pattern (%s)))", bv, e.fv.sortOf(t), implies(facts, body.T), pat.T))
					}
					return boolVal(fmt.Sprintf("(exists ((%s %s)) (! %s :pattern (%s)))", bv, e.fv.sortOf(t), and(facts, body.T), pat.T))
				}
			}
		}
		id, ok := n.Args[0].(*ast.Ident)
		if !ok {
			return e.errf("%s: first arg must be identifier", kind)
		}
		lo, hi := e.tr(n.Args[1]), e.tr(n.Args[2])
		ne := e.child()
		bv := "q!" + id.Name
		ne.vars[id.Name] = intVal(bv)
		body := ne.tr(n.Args[3])
		e.errs = append(e.errs, ne.errs[len(e.errs):]...)
		rng := fmt.Sprintf("(and (<= %s %s) (< %s %s))", lo.T, bv, bv, hi.T)
		if kind == "forall" {
			return boolVal(fmt.Sprintf("(forall ((%s Int)) (=> %s %s))", bv, rng, body.T))
		}
		return boolVal(fmt.Sprintf("(exists ((%s Int)) (and %s %s))", bv, rng, body.T))
	}
	if len(n.Args) == 3 {
		id, ok := n.Args[0].(*ast.Ident)
		if !ok {
			return e.errf("%s: first arg must be identifier", kind)
		}
		t := e.fv.g.resolveType(exprText(n.Args[1]))
		if t == nil {
			return e.errf("%s: unknown type %s", kind, exprText(n.Args[1]))
		}
		ne := e.child()
		bv := "q!" + id.Name
		ne.vars[id.Name] = &Val{T: bv, Typ: t}
		body := ne.tr(n.Args[2])
		e.errs = append(e.errs, ne.errs[len(e.errs):]...)
		facts := e.fv.typeFactsNoAlloc(bv, t)
		if kind == "forall" {
			return boolVal(fmt.Sprintf("(forall ((%s %s)) %s)", bv, e.fv.sortOf(t), implies(facts, body.T)))
		}
		return boolVal(fmt.Sprintf("(exists ((%s %s)) %s)", bv, e.fv.sortOf(t), and(facts, body.T)))
	}
	return e.errf("%s: wrong number of arguments", kind)
}

func (fv *FuncVC) typeFactsNoAlloc(term string, t types.Type) string {
	if lo, hi, ok := intRange(t); ok {
		return fmt.Sprintf("(and (<= %s %s) (<= %s %s))", intLit(lo), term, term, intLit(hi))
	}
	// strings: (slen s) >= 0 is a global axiom of the preamble, no guard needed
	return "true"
}

func (e *Env) specCall(sf *SpecFun, args []ast.Expr) *Val {
	fv := e.fv
	if len(args) != len(sf.Params) {
		return e.errf("spec function %s: want %d args, got %d", sf.Name, len(sf.Params), len(args))
	}
	var vals []*Val
	for i, a := range args {
		v := e.tr(a)
		pt := fv.g.resolveType(sf.Params[i].Type)
		if pt != nil {
			v, _ = e.unify(v, &Val{Typ: pt})
			if isFloat(pt) && !sortIsReal(e, v) {
				v = &Val{T: "(to_real " + v.T + ")", Typ: pt}
			}
		}
		vals = append(vals, v)
	}
	rt := fv.g.resolveType(sf.Result)
	if rt == nil {
		return e.errf("spec function %s: unknown result type %q", sf.Name, sf.Result)
	}
	if sf.Body != nil {
		// macro expansion: evaluate body with parameters bound (heap-dependent bodies see current state)
		ne := e.child()
		ne.locals = false
		for i, p := range sf.Params {
			v := vals[i]
			if pt := fv.g.resolveType(p.Type); pt != nil && (v.Typ == nil || isUntyped(v.Typ)) {
				v = &Val{T: v.T, Typ: pt}
			}
			// a large argument term is bound to a fresh constant, so that nested spec functions (offsets computed
			// from offsets, as in the reply-shape predicates) stay linear in size instead of multiplying
			if len(v.T) > 120 && v.Tuple == nil && v.Typ != nil && !strings.Contains(v.T, "q!") && fv.fn != nil {
				if _, isBasic := v.Typ.Underlying().(*types.Basic); isBasic {
					if s := fv.sortOf(v.Typ); s == "Int" {
						nv := *v
						nv.T = fv.name("sa", s, v.T)
						v = &nv
					}
				}
			}
			ne.vars[p.Name] = v
		}
		r := ne.tr(sf.Body)
		e.errs = append(e.errs, ne.errs[len(e.errs):]...)
		if r.Typ == nil || isUntyped(r.Typ) {
			r = &Val{T: r.T, Typ: rt}
		}
		return r
	}
	// uninterpreted (or raw-SMT defined) function
	var ps []string
	var as []string
	for i, p := range sf.Params {
		pt := fv.g.resolveType(p.Type)
		if pt == nil {
			return e.errf("spec function %s: unknown param type %q", sf.Name, p.Type)
		}
		ps = append(ps, fv.sortOf(pt))
		as = append(as, vals[i].T)
	}
	name := "sf$" + sf.Name
	if sf.SMTBody != "" {
		var formals []string
		for i, p := range sf.Params {
			formals = append(formals, "("+p.Name+" "+ps[i]+")")
		}
		fv.g.declareGlobal(name, fmt.Sprintf("(define-fun %s (%s) %s %s)", name, strings.Join(formals, " "), fv.sortOf(rt), sf.SMTBody))
	} else {
		fv.g.declareGlobal(name, fmt.Sprintf("(declare-fun %s (%s) %s)", name, strings.Join(ps, " "), fv.sortOf(rt)))
	}
	return &Val{T: app(name, as...), Typ: rt}
}

func isUntyped(t types.Type) bool {
	b, ok := t.(*types.Basic)
	return ok && b.Info()&types.IsUntyped != 0
}
