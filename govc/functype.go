package main

// functype.go: contracts on named function types. A 'functype T(params)' block gives the contract every
// function stored into a value of type T has to satisfy; a call through a value of type T is checked
// against (and continues with) that contract only. Every function that is converted to T anywhere in the
// package inherits the type's clauses: it is verified against the type's ensures under the type's
// requires, and any requires of its own must follow from the type's (obligation kind implements-pre).

import (
	"fmt"
	"go/types"
	"sort"

	"golang.org/x/tools/go/ssa"
)

func (g *Gen) funcTypeKey(t types.Type) string {
	n, ok := t.(*types.Named)
	if !ok {
		return ""
	}
	k := "type:" + n.Obj().Name()
	if c, ok := g.spec.Contracts[k]; ok && c.FuncType != "" {
		return k
	}
	return ""
}

// resolveImplementer maps the operand of a conversion to the declared function it stands for.
func (g *Gen) resolveImplementer(v ssa.Value) *ssa.Function {
	switch x := v.(type) {
	case *ssa.Function:
		if x.Synthetic != "" {
			// thunk / wrapper of a declared method
			if obj, ok := x.Object().(*types.Func); ok && obj != nil {
				if f := g.prog.FuncValue(obj); f != nil {
					return f
				}
			}
			return nil
		}
		return x
	case *ssa.MakeClosure:
		if f, ok := x.Fn.(*ssa.Function); ok {
			return g.resolveImplementer(f)
		}
	}
	return nil
}

// bindFuncTypes finds the implementers of every function type under contract and merges the type's
// clauses into their contracts. Runs once after the spec and the SSA program are loaded.
func (g *Gen) bindFuncTypes() {
	g.funcTypeImpl = map[string][]*ssa.Function{}
	var tkeys []string
	for k, c := range g.spec.Contracts {
		if c.FuncType != "" {
			tkeys = append(tkeys, k)
		}
	}
	if len(tkeys) == 0 {
		return
	}
	sort.Strings(tkeys)
	var fns []*ssa.Function
	for _, f := range g.funcsByKey {
		fns = append(fns, f)
	}
	if init := g.pkg.Func("init"); init != nil {
		fns = append(fns, init)
	}
	sort.Slice(fns, func(i, j int) bool { return funcKey(fns[i]) < funcKey(fns[j]) })
	for _, tk := range tkeys {
		tc := g.spec.Contracts[tk]
		if !tc.HasMod {
			g.specErrors = append(g.specErrors, fmt.Sprintf("%s:%d: functype %s needs a modifies clause", tc.File, tc.Line, tc.FuncType))
		}
		obj := g.tpkg.Scope().Lookup(tc.FuncType)
		if obj == nil {
			g.lostFuncTypes = append(g.lostFuncTypes, tc)
			continue
		}
		T := obj.Type()
		seen := map[*ssa.Function]bool{}
		for _, f := range fns {
			for _, b := range f.Blocks {
				for _, in := range b.Instrs {
					ct, ok := in.(*ssa.ChangeType)
					if !ok || !types.Identical(ct.Type(), T) {
						continue
					}
					impl := g.resolveImplementer(ct.X)
					if impl == nil {
						g.unboundFuncType = append(g.unboundFuncType, fmt.Sprintf("%s: a value converted to %s in %s is not a declared function (%s)", tc.FuncType, tc.FuncType, funcKey(f), ct.X.String()))
						continue
					}
					if !seen[impl] {
						seen[impl] = true
						g.funcTypeImpl[tk] = append(g.funcTypeImpl[tk], impl)
					}
				}
			}
		}
		for _, impl := range g.funcTypeImpl[tk] {
			key := funcKey(impl)
			con := g.spec.Contracts[key]
			created := false
			if con == nil {
				created = true
				con = &Contract{Func: key, Loops: map[int][]*Clause{}, File: tc.File, Line: tc.Line}
				g.spec.Contracts[key] = con
				g.spec.Order = append(g.spec.Order, key)
			}
			if con.Assumed {
				continue
			}
			// positional parameter names must agree (the type's clauses are written over them)
			for i, p := range tc.Params {
				if i >= len(impl.Params) || impl.Params[i].Name() != p.Name {
					g.unboundFuncType = append(g.unboundFuncType, fmt.Sprintf("%s: parameter %d of %s is not named %s", tc.FuncType, i, key, p.Name))
				}
			}
			con.Implements = tc.FuncType
			var req []*Clause
			for _, r := range tc.Requires {
				c := *r
				c.FromType = true
				if len(c.Props) == 0 {
					c.Props = tc.Props
				}
				req = append(req, &c)
			}
			con.Requires = append(req, con.Requires...)
			for _, e := range tc.Ensures {
				c := *e
				c.FromType = true
				if len(c.Props) == 0 {
					c.Props = tc.Props
				}
				con.Ensures = append(con.Ensures, &c)
			}
			if created {
				con.Props = append(con.Props, tc.Props...)
			}
			if !con.HasMod && tc.HasMod {
				con.HasMod = true
				con.Modifies = append(con.Modifies, tc.Modifies...)
			}
		}
	}
}
