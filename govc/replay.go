package main

// replay.go: counterexample extraction and replay on the real code.

import (
	"fmt"
	"sort"
	"strings"
)

// counterexample asks the solver for the values of the function's parameters (and the fields /
// elements reachable from them one level deep) in the model of a refuted obligation.
func (g *Gen) counterexample(ob *Obligation) string {
	if ob.fv == nil || ob.fv.fn == nil {
		return g.modelFor(ob, nil)
	}
	fv := ob.fv
	var terms []string
	var names []string
	for k := range fv.params {
		names = append(names, k)
	}
	sort.Strings(names)
	for _, k := range names {
		v := fv.params[k]
		if v.T == "" {
			continue
		}
		terms = append(terms, v.T)
	}
	if len(terms) == 0 {
		return g.modelFor(ob, nil)
	}
	out := g.modelFor(ob, terms)
	var b strings.Builder
	for i, k := range names {
		if i < len(terms) {
			fmt.Fprintf(&b, "  %s = %s\n", k, terms[i])
		}
	}
	return b.String() + out
}

// replayOnRealCode: per-function replay harnesses (see /verif/replay). Returns ok=true when the
// failing input was reproduced on the real code.
func (g *Gen) replayOnRealCode(ob *Obligation, dir, repo, verif string) (bool, string, string) {
	return replayDispatch(g, ob, dir, repo, verif)
}
