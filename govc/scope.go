package main

// scope.go: is a call site inside the scope of the locals a call-site clause names?
//
// go/ssa emits the cell of a local where the local is declared, so "declared before this call" can be read off the
// instruction order: the cell's block strictly dominates the call's block, or it is the same block and the cell comes
// first. (findLocal alone is block-granular and falls back to the only candidate: a clause naming a local declared
// LATER in the same block used to be evaluated against the local's zero value.) A clause whose locals are not all in
// scope at a call site is not about that site; if it then matches no site at all, that is an anchor loss.

import (
	"go/ast"

	"golang.org/x/tools/go/ssa"
)

func (fv *FuncVC) localsInScope(e ast.Expr) bool {
	if fv.curIn == nil {
		return true
	}
	cur := fv.curIn
	cb := cur.Block()
	ci := instrIndex(cur)
	ok := true
	var visit func(n ast.Node) bool
	visit = func(n ast.Node) bool {
		if sel, isSel := n.(*ast.SelectorExpr); isSel {
			ast.Inspect(sel.X, visit) // the field name is not a variable
			return false
		}
		id, isId := n.(*ast.Ident)
		if !isId || !ok {
			return ok
		}
		cands := fv.localsByName[id.Name]
		if len(cands) == 0 {
			return true
		}
		if _, isParam := fv.params[id.Name]; isParam {
			return true
		}
		declared := false
		for _, a := range cands {
			ab := a.Block()
			if ab == cb {
				if instrIndex(a) < ci {
					declared = true
				}
			} else if ab.Dominates(cb) {
				declared = true
			}
		}
		if !declared {
			ok = false
		}
		return ok
	}
	ast.Inspect(e, visit)
	return ok
}

var _ ssa.Instruction
