package main

// report.go: turn failed obligations into KNOWN-FINDING / VIOLATION lines, write evidence.

import (
	"fmt"
	"os"
	"path/filepath"
	"strings"
	"time"
)

func (g *Gen) report(res *CheckResult, verif, repo string, seed int, evidencePath string, start time.Time) int {
	kf := loadKnown(filepath.Join(verif, "known_findings.json"))
	var knownLines []string
	violations := 0
	oblByName := map[string]*Obligation{}
	for _, o := range res.obls {
		oblByName[o.Name] = o
	}
	seenKnown := map[string]bool{}
	var newFailed []*OblReport
	for _, f := range res.Failed {
		if k := kf.match(res.Prop, f.Name); k != nil && f.Expect == "unsat" {
			if !seenKnown[k.ID] {
				seenKnown[k.ID] = true
				line := fmt.Sprintf("KNOWN-FINDING: property=%s %s [%s] %s", res.Prop, k.ID, k.Obligation, k.What)
				fmt.Println(line)
				knownLines = append(knownLines, line)
			}
			// known-failing obligations are not counted as obligations of the proof
			res.Obligations--
			continue
		}
		newFailed = append(newFailed, f)
	}
	// stale known findings: listed obligation now discharges
	for _, k := range kf.Known {
		if k.Property != res.Prop || seenKnown[k.ID] {
			continue
		}
		present := false
		for _, o := range res.All {
			if o.Name == k.Obligation || strings.HasPrefix(o.Name, k.Obligation+"#") || strings.HasPrefix(o.Name, k.Obligation+"@") ||
				(strings.HasPrefix(k.Obligation, "*#") && strings.Contains(o.Name, k.Obligation[1:])) {
				present = true
			}
		}
		if present {
			knownLines = append(knownLines, fmt.Sprintf("resolved (obligation now discharges, no KNOWN-FINDING line printed): %s", k.ID))
		} else {
			knownLines = append(knownLines, fmt.Sprintf("not-generated (obligation %s absent in this run): %s", k.Obligation, k.ID))
		}
	}
	res.Failed = newFailed
	replayDir := filepath.Join(verif, "out", "replays", res.Prop)
	os.MkdirAll(replayDir, 0o755)
	for _, f := range newFailed {
		violations++
		ob := oblByName[f.Name]
		path, found := g.makeReplay(ob, f, replayDir, repo, verif)
		if found {
			fmt.Printf("VIOLATION property=%s replay=%s obligation=%s verdict=%s\n", res.Prop, path, f.Name, f.Verdict)
		} else {
			fmt.Printf("VIOLATION property=%s replay=%s obligation=%s verdict=%s no-failing-input-found\n", res.Prop, path, f.Name, f.Verdict)
		}
	}
	res.WallS = time.Since(start).Seconds()
	if evidencePath != "" {
		if err := writeEvidence(evidencePath, res, seed, knownLines, nil, violations); err != nil {
			fmt.Fprintln(os.Stderr, "TOOL-ERROR evidence:", err)
			return 2
		}
	}
	fmt.Printf("govc: prop=%s tier=%s functions=%d obligations=%d discharged=%d failed=%d known=%d vacuity=%d/%d undecided-safety=%d wall=%.1fs\n",
		res.Prop, res.Tier, len(res.Functions), res.Obligations, res.Discharged, len(newFailed), len(seenKnown), res.VacuityOK, res.VacuityTotal, len(res.Undecided), res.WallS)
	if violations > 0 {
		return 1
	}
	if res.Obligations == 0 {
		fmt.Println("TOOL-ERROR no obligations generated for property", res.Prop)
		return 2
	}
	return 0
}

// makeReplay writes a replay file for a failed obligation. Returns (path, failingInputFound).
func (g *Gen) makeReplay(ob *Obligation, f *OblReport, dir, repo, verif string) (string, bool) {
	path := filepath.Join(dir, fileSafe(f.Name)+".replay.txt")
	var b strings.Builder
	fmt.Fprintf(&b, "obligation: %s\nkind: %s\nverdict: %s (solver %s, %d ms)\nposition: %s\nclause: %s\n", f.Name, f.Kind, f.Verdict, f.Solver, f.MS, f.Pos, f.Clause)
	found := false
	if ob != nil {
		fmt.Fprintf(&b, "smt query: %s\nsolver output: %s\n", ob.File, ob.Output)
		if f.Verdict == "sat" {
			model := g.counterexample(ob)
			fmt.Fprintf(&b, "\ncounterexample (values of the function's inputs in the solver model):\n%s\n", model)
			if ok, testPath, log := g.replayOnRealCode(ob, dir, repo, verif); testPath != "" {
				fmt.Fprintf(&b, "\nreplay test: %s\nreplay result: failing-input-reproduced=%v\n%s\n", testPath, ok, log)
				found = ok
				if ok {
					path = testPath
				}
			} else if log != "" {
				fmt.Fprintf(&b, "\nreplay on the real code: %s\n", log)
			}
		}
	}
	if !found {
		b.WriteString("\nno-failing-input-found: the obligation is not discharged on this tree; no concrete failing input was replayed on the real code\n")
	}
	os.WriteFile(filepath.Join(dir, fileSafe(f.Name)+".replay.txt"), []byte(b.String()), 0o644)
	return path, found
}
