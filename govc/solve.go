package main

// solve.go: SMT file emission and solver portfolio.

import (
	"bytes"
	"context"
	"fmt"
	"os"
	"os/exec"
	"path/filepath"
	"regexp"
	"strings"
	"sync"
	"time"
)

func (g *Gen) header() string {
	var b strings.Builder
	b.WriteString(preamble)
	b.WriteString(g.sorts.decls())
	for _, n := range g.extraOrder {
		b.WriteString(g.extraDecl[n] + "\n")
	}
	b.WriteString(g.strDecls())
	for _, a := range g.axiomLines {
		b.WriteString(a + "\n")
	}
	return b.String()
}

var strConstRe = regexp.MustCompile(`str![A-Za-z]+[0-9]*`)

// headerFor is header() restricted to the string constants the obligation's own text mentions. A check over many
// functions collects hundreds of string literals (log messages, error texts), each with one axiom per byte; carrying
// all of them into every query made the same obligation many times slower in a large check than in a small one.
func (g *Gen) headerFor(body string) string {
	used := map[string]bool{}
	for _, m := range strConstRe.FindAllString(body, -1) {
		used[m] = true
	}
	for _, a := range g.axiomLines {
		for _, m := range strConstRe.FindAllString(a, -1) {
			used[m] = true
		}
	}
	for _, n := range g.extraOrder {
		for _, m := range strConstRe.FindAllString(g.extraDecl[n], -1) {
			used[m] = true
		}
	}
	var b strings.Builder
	b.WriteString(preamble)
	b.WriteString(g.sorts.decls())
	for _, n := range g.extraOrder {
		b.WriteString(g.extraDecl[n] + "\n")
	}
	var kept []string
	for _, s := range g.strOrder {
		n := g.strConsts[s]
		if !used[n] {
			continue
		}
		kept = append(kept, n)
		fmt.Fprintf(&b, "(declare-const %s Str) ; %q\n", n, s)
		fmt.Fprintf(&b, "(assert (= (slen %s) %d))\n", n, len(s))
		for i := 0; i < len(s); i++ {
			fmt.Fprintf(&b, "(assert (= (sat %s %d) %d))\n", n, i, s[i])
		}
	}
	if len(kept) > 0 {
		b.WriteString("(assert (distinct str!empty " + strings.Join(kept, " ") + "))\n")
	}
	for _, a := range g.axiomLines {
		b.WriteString(a + "\n")
	}
	return b.String()
}

func (g *Gen) obligationSMT(ob *Obligation, header string) string {
	var b strings.Builder
	b.WriteString("; obligation " + ob.Name + "\n")
	if ob.Pos != "" {
		b.WriteString("; at " + ob.Pos + "\n")
	}
	if ob.Src != "" {
		b.WriteString("; clause: " + strings.ReplaceAll(ob.Src, "\n", " ") + "\n")
	}
	{
		// the header is cut down to what this obligation mentions
		var body strings.Builder
		if ob.fv != nil {
			for _, l := range ob.fv.lines[:ob.Prefix] {
				body.WriteString(l + "\n")
			}
		} else {
			for _, l := range ob.lines {
				body.WriteString(l + "\n")
			}
		}
		body.WriteString(ob.Reach + "\n" + ob.Goal + "\n")
		header = g.headerFor(body.String())
	}
	b.WriteString(header)
	if ob.fv != nil {
		for _, l := range ob.fv.lines[:ob.Prefix] {
			b.WriteString(l + "\n")
		}
	} else {
		for _, l := range ob.lines {
			b.WriteString(l + "\n")
		}
	}
	if ob.Reach != "" && ob.Reach != "true" {
		b.WriteString("(assert " + ob.Reach + ")\n")
	}
	if ob.Expect == "unsat" {
		b.WriteString("(assert (not " + ob.Goal + "))\n")
	} else if ob.Goal != "true" && ob.Goal != "" {
		b.WriteString("(assert " + ob.Goal + ")\n")
	}
	b.WriteString("(check-sat)\n")
	return b.String()
}

type solverSpec struct {
	name string
	args func(file string, timeoutMS int, seed int) []string
	pre  string
}

var solvers = []solverSpec{
	{name: "z3-new", args: func(f string, t int, seed int) []string {
		return []string{"z3-new", fmt.Sprintf("-t:%d", t), fmt.Sprintf("smt.random_seed=%d", seed), f}
	}, pre: "(set-logic ALL)\n(set-option :produce-models true)\n"},
	{name: "z3", args: func(f string, t int, seed int) []string {
		return []string{"z3", fmt.Sprintf("-t:%d", t), fmt.Sprintf("smt.random_seed=%d", seed), f}
	}, pre: "(set-logic ALL)\n(set-option :produce-models true)\n"},
	{name: "cvc5", args: func(f string, t int, seed int) []string {
		return []string{"cvc5", fmt.Sprintf("--tlimit=%d", t), fmt.Sprintf("--seed=%d", seed), "--produce-models", f}
	}, pre: "(set-option :produce-models true)\n(set-logic ALL)\n"},
}

type solveResult struct {
	verdict string // sat unsat unknown timeout error
	solver  string
	ms      int64
	output  string
}

func runSolver(ctx context.Context, s solverSpec, file string, timeoutMS, seed int, wantModel bool) solveResult {
	start := time.Now()
	args := s.args(file, timeoutMS, seed)
	cctx, cancel := context.WithTimeout(ctx, time.Duration(timeoutMS+2000)*time.Millisecond)
	defer cancel()
	cmd := exec.CommandContext(cctx, args[0], args[1:]...)
	var out bytes.Buffer
	cmd.Stdout = &out
	cmd.Stderr = &out
	_ = cmd.Run()
	ms := time.Since(start).Milliseconds()
	text := out.String()
	first := strings.TrimSpace(strings.SplitN(text, "\n", 2)[0])
	v := "error"
	switch {
	case first == "unsat":
		v = "unsat"
	case first == "sat":
		v = "sat"
	case strings.HasPrefix(first, "(error") && !strings.Contains(first, "model is not available"):
		v = "error"
	case first == "unknown" || strings.Contains(first, "timeout"):
		v = "unknown"
	case cctx.Err() != nil:
		v = "timeout"
	}
	return solveResult{verdict: v, solver: s.name, ms: ms, output: text}
}

// solveOne decides one obligation: stage 1 z3-new alone (short), stage 2 full portfolio.
func (g *Gen) solveOne(ob *Obligation, dir string, header string, timeoutMS int, seed int) {
	body := g.obligationSMT(ob, header)
	base := filepath.Join(dir, fileSafe(ob.Name))
	ob.File = base + ".smt2"
	files := map[string]string{}
	for _, s := range solvers {
		f := base + "." + s.name + ".smt2"
		if s.name == "z3-new" {
			f = ob.File
		}
		files[s.name] = f
	}
	os.WriteFile(files["z3-new"], []byte(solvers[0].pre+body), 0o644)
	quick := 2500
	if ob.Expect == "sat" {
		// vacuity guards only fail on 'unsat', which (when it happens) is found quickly
		quick = 1000
	}
	if strings.Contains(ob.Name, "#kf-") && strings.Contains(ob.Name, "#assert#") {
		// call-site clause of a recorded known finding: at a site the finding is not about, the goal is ground
		// and discharges at once; at a site it is about, it is expected to stay open
		quick = 600
	}
	if quick > timeoutMS {
		quick = timeoutMS
	}
	start := time.Now()
	var r solveResult
	if ob.Verdict == "pending" {
		// pass B: the short single-solver stage was already run in pass A
		r = solveResult{verdict: "unknown", solver: solvers[0].name}
	} else {
		r = runSolver(context.Background(), solvers[0], files["z3-new"], quick, seed, false)
	}
	if r.verdict == "unsat" || r.verdict == "sat" {
		g.finish(ob, r, start)
		return
	}
	if r.verdict == "error" {
		g.finish(ob, r, start)
		return
	}
	if strings.Contains(ob.Name, "#kf-") {
		// a clause labelled kf-... states a recorded known finding: it is expected NOT to discharge on the
		// pinned tree (its failure prints KNOWN-FINDING, not VIOLATION), so the portfolio budget is not spent on
		// it; if the defect is repaired the short stage discharges it and the entry is reported as resolved
		r.verdict = "unknown"
		g.finish(ob, r, start)
		return
	}
	if ob.Expect == "sat" || ob.Abstract {
		// vacuity guard: only 'unsat' is a failure; quantified contexts rarely give 'sat', so do not
		// spend the full budget (inconclusive is reported as such). Obligations of abstracted / partial
		// functions that are decided only where possible get the short stage as well.
		r.verdict = "unknown"
		g.finish(ob, r, start)
		return
	}
	if g.firstPassOnly {
		// pass A of solveAll: one solver per obligation, full parallelism; the portfolio is run in pass B
		r.verdict = "pending"
		g.finish(ob, r, start)
		return
	}
	// stage 2: portfolio
	for _, s := range solvers[1:] {
		os.WriteFile(files[s.name], []byte(s.pre+body), 0o644)
	}
	ctx, cancel := context.WithCancel(context.Background())
	defer cancel()
	ch := make(chan solveResult, len(solvers))
	for _, s := range solvers {
		s := s
		go func() { ch <- runSolver(ctx, s, files[s.name], timeoutMS, seed, false) }()
	}
	var last solveResult
	var outs []string
	for i := 0; i < len(solvers); i++ {
		res := <-ch
		outs = append(outs, fmt.Sprintf("[%s] %s (%dms)", res.solver, firstLine(res.output), res.ms))
		if res.verdict == "unsat" || res.verdict == "sat" {
			cancel()
			g.finish(ob, res, start)
			ob.Output = strings.Join(outs, "; ")
			for _, s := range solvers[1:] {
				os.Remove(files[s.name])
			}
			return
		}
		last = res
	}
	last.verdict = "unknown"
	g.finish(ob, last, start)
	ob.Output = strings.Join(outs, "; ")
	for _, s := range solvers[1:] {
		os.Remove(files[s.name])
	}
}

func firstLine(s string) string {
	s = strings.TrimSpace(s)
	if i := strings.Index(s, "\n"); i >= 0 {
		s = s[:i]
	}
	if len(s) > 160 {
		s = s[:160]
	}
	return s
}

func (g *Gen) finish(ob *Obligation, r solveResult, start time.Time) {
	ob.Verdict = r.verdict
	ob.Solver = r.solver
	ob.MS = time.Since(start).Milliseconds()
	ob.Output = firstLine(r.output)
}

func (g *Gen) solveAll(obls []*Obligation, dir string, timeoutMS, seed, par int) {
	os.MkdirAll(dir, 0o755)
	header := g.header()
	var wg sync.WaitGroup
	sem := make(chan struct{}, par)
	// pass A: every obligation once on z3-new alone (short budget), one process per slot; pass B: the portfolio
	// (three solver processes per obligation) only for what pass A left open, with a third of the slots - so the
	// machine is never oversubscribed threefold and verdicts depend less on load
	g.firstPassOnly = true
	for _, ob := range obls {
		ob := ob
		wg.Add(1)
		sem <- struct{}{}
		go func() {
			defer wg.Done()
			defer func() { <-sem }()
			g.solveOne(ob, dir, header, timeoutMS, seed)
		}()
	}
	wg.Wait()
	g.firstPassOnly = false
	if os.Getenv("VERIF_TIMING") != "" {
		n := 0
		for _, ob := range obls {
			if ob.Verdict == "pending" {
				n++
			}
		}
		fmt.Printf("timing: pass A done at %s, %d pending for the portfolio\n", time.Now().Format("15:04:05"), n)
	}
	parB := par / 3
	if parB < 2 {
		parB = 2
	}
	semB := make(chan struct{}, parB)
	for _, ob := range obls {
		if ob.Verdict != "pending" {
			continue
		}
		ob := ob
		wg.Add(1)
		semB <- struct{}{}
		go func() {
			defer wg.Done()
			defer func() { <-semB }()
			g.solveOne(ob, dir, header, timeoutMS, seed)
		}()
	}
	wg.Wait()
	// stage 3: obligations left undecided are retried with little parallelism and three times the budget, so
	// that a verdict does not depend on how loaded the machine was during the parallel pass
	var again []*Obligation
	for _, ob := range obls {
		if ob.Expect == "unsat" && !ob.Abstract && !strings.Contains(ob.Name, "#kf-") && (ob.Verdict == "unknown" || ob.Verdict == "timeout") {
			again = append(again, ob)
		}
	}
	if os.Getenv("VERIF_TIMING") != "" {
		fmt.Printf("timing: pass B done at %s, %d for the retry stage\n", time.Now().Format("15:04:05"), len(again))
	}
	if len(again) == 0 || len(again) > 40 {
		return
	}
	sem2 := make(chan struct{}, 4)
	for _, ob := range again {
		ob := ob
		wg.Add(1)
		sem2 <- struct{}{}
		go func() {
			defer wg.Done()
			defer func() { <-sem2 }()
			first := ob.Output
			g.solveOne(ob, dir, header, timeoutMS*6, seed+1)
			ob.Output = "retry after: " + first + " | " + ob.Output
		}()
	}
	wg.Wait()
}

// modelFor re-runs the winning solver with (get-model)/(get-value) to obtain a counterexample.
func (g *Gen) modelFor(ob *Obligation, terms []string) string {
	if ob.File == "" {
		return ""
	}
	data, err := os.ReadFile(ob.File)
	if err != nil {
		return ""
	}
	q := string(data)
	if len(terms) > 0 {
		q += "(get-value (" + strings.Join(terms, " ") + "))\n"
	} else {
		q += "(get-model)\n"
	}
	f := strings.TrimSuffix(ob.File, ".smt2") + ".model.smt2"
	os.WriteFile(f, []byte(q), 0o644)
	defer os.Remove(f)
	r := runSolver(context.Background(), solvers[0], f, 20000, 0, true)
	return r.output
}

func fileSafe(s string) string {
	var b strings.Builder
	for _, r := range s {
		switch {
		case r >= 'a' && r <= 'z', r >= 'A' && r <= 'Z', r >= '0' && r <= '9', r == '_', r == '.', r == '-':
			b.WriteRune(r)
		default:
			b.WriteRune('_')
		}
	}
	return b.String()
}
