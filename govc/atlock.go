package main

// atlock.go: atlock(x.mu, e) - the value e had when this function last acquired a mutex of x.mu's class.
//
// With a 'reacquire' rule (locks.go) the state a mutex protects is forgotten every time the function takes the mutex
// again, which is what other threads can do to it in between. A postcondition that relates the state the function
// leaves to "the state it found" must then mean the state found under the LAST critical section, not at function
// entry: "SETATTR keeps the size" is `node.attrs.Size == atlock(node.mu, node.attrs.Size)`. Code that carries a value
// read under an earlier critical section into a later one (a read-modify-write split across two lock regions: a
// lost update) no longer satisfies it, code that re-reads under the final lock does.
//
// Implementation: at every Lock/RLock/TryLock/TryRLock of a mutex of class K (struct type + field) in a function
// whose contract mentions atlock, every heap H of the current state is copied to a shadow heap ACQ$K$H (after the
// reacquire rule has run). Shadow heaps are ordinary state, so they merge at joins like everything else; on a path
// with no acquisition a shadow heap equals the heap at function entry. In a caller's view of a callee's contract
// atlock(...) is an unknown value of the right type (the caller cannot see the callee's critical sections).

import (
	"go/ast"
	"go/types"
	"strings"

	"golang.org/x/tools/go/ssa"
)

func isFalseLit(e ast.Expr) bool {
	id, ok := e.(*ast.Ident)
	return ok && id.Name == "false"
}

func (c *Contract) usesAtlock() bool {
	if c == nil {
		return false
	}
	for _, e := range c.Ensures {
		if strings.Contains(e.Src, "atlock(") {
			return true
		}
	}
	for _, ca := range c.CallAsserts {
		if strings.Contains(ca.Clause.Src, "atlock(") {
			return true
		}
	}
	return false
}

func noSnapshot(name string) bool {
	return name == "LOCK" || name == "alloc" || name == "ONCE" || strings.HasPrefix(name, "ACQ$") || strings.HasPrefix(name, "VIS$") || strings.HasPrefix(name, "DF$")
}

// snapshotAtAcquire is called by the lock primitives after the lock state has been updated.
func (fv *FuncVC) snapshotAtAcquire(recv ssa.Value) {
	if !fv.con.usesAtlock() {
		return
	}
	cl := fv.g.lockClassOf(recv)
	if cl == "" {
		return
	}
	var names []string
	for name := range fv.cur.heaps {
		if !noSnapshot(name) {
			names = append(names, name)
		}
	}
	for _, name := range names {
		an := "ACQ$" + cl + "$" + name
		if fv.heapSort[an] == "" {
			fv.heapGet(an, fv.heapSort[name]) // declares an@0
			fv.emit("(assert (= " + an + "@0 " + name + "@0))")
		}
		fv.cur.heaps[an] = fv.cur.heaps[name]
	}
}

// atlockState: the state at the last acquisition of a mutex of class cl, as far as st records it.
func (e *Env) atlockState(cl string) *State {
	pre := "ACQ$" + cl + "$"
	st := &State{cells: e.st.cells, heaps: map[string]string{}}
	for name, term := range e.st.heaps {
		if strings.HasPrefix(name, pre) {
			st.heaps[name[len(pre):]] = term
		}
	}
	return st
}

// trAtlock translates atlock(x.mu, expr).
func (e *Env) trAtlock(n *ast.CallExpr) *Val {
	if len(n.Args) != 2 {
		return e.errf("atlock wants (mutex, expression)")
	}
	sel, ok := n.Args[0].(*ast.SelectorExpr)
	if !ok {
		return e.errf("atlock: first argument must be x.mutexField")
	}
	bv := e.tr(sel.X)
	cl := ""
	if bv != nil && bv.Typ != nil {
		if pt, ok := bv.Typ.Underlying().(*types.Pointer); ok {
			if named, ok := types.Unalias(pt.Elem()).(*types.Named); ok {
				cl = named.Obj().Name() + "." + sel.Sel.Name
			}
		}
	}
	if cl == "" {
		return e.errf("atlock: cannot tell the mutex class of the first argument")
	}
	if e.calleeView {
		// a caller cannot see the callee's critical sections: an unknown value of the expression's type
		cur := e.tr(n.Args[1])
		if cur == nil || cur.Typ == nil {
			return e.errf("atlock: untyped expression")
		}
		return e.fv.havocVal("atlock", cur.Typ)
	}
	ne := *e
	ne.st = e.atlockState(cl)
	r := ne.tr(n.Args[1])
	e.errs = append(e.errs, ne.errs[len(e.errs):]...)
	return r
}
