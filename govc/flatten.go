package main

// flatten.go: struct objects in the heap are flattened recursively: one heap per leaf field path
// (H$T$f, H$T$f.g, ...), so that a write to s.options.Port says nothing about s.options.UseRecordMarking.

import (
	"go/types"
	"strings"
)

type leafHeap struct{ name, sort string }

// leavesOf enumerates the leaf heaps below the heap-name prefix for a value of type t.
func (g *Gen) leavesOf(prefix string, t types.Type) []leafHeap {
	if st, ok := t.Underlying().(*types.Struct); ok {
		var out []leafHeap
		for i := 0; i < st.NumFields(); i++ {
			out = append(out, g.leavesOf(prefix+"."+st.Field(i).Name(), st.Field(i).Type())...)
		}
		return out
	}
	return []leafHeap{{prefix, "(Array Int " + g.sorts.sortOf(t) + ")"}}
}

// fieldLeaves: leaf heaps of field i of the top-level struct type st.
func (g *Gen) fieldLeaves(st types.Type, i int) []leafHeap {
	name, _ := g.fieldHeap(st, i)
	return g.leavesOf(name, st.Underlying().(*types.Struct).Field(i).Type())
}

// structLeaves: all leaf heaps of a top-level struct object of type t.
func (g *Gen) structLeaves(t types.Type) []leafHeap {
	st, ok := t.Underlying().(*types.Struct)
	if !ok {
		return nil
	}
	var out []leafHeap
	for i := 0; i < st.NumFields(); i++ {
		out = append(out, g.fieldLeaves(t, i)...)
	}
	return out
}

// isHeapAggregate: the place designates a whole struct stored (flattened) in field heaps.
func isHeapAggregate(p *Place) bool {
	if p.Kind != PHeap || len(p.Path) != 0 {
		return false
	}
	if _, ok := p.Typ.Underlying().(*types.Struct); !ok {
		return false
	}
	return p.Heap == "" || strings.HasPrefix(p.Heap, "H$")
}

// subHeapName: heap (prefix) holding field i of the aggregate designated by p.
func (fv *FuncVC) subHeapName(p *Place, i int) string {
	if p.Heap == "" {
		n, _ := fv.g.fieldHeap(p.Root, i)
		return n
	}
	return p.Heap + "." + p.Typ.Underlying().(*types.Struct).Field(i).Name()
}
