package main

// contracts.go: parse //@ contract files into structured contracts.

import (
	"fmt"
	"go/ast"
	"go/parser"
	"os"
	"path/filepath"
	"regexp"
	"sort"
	"strconv"
	"strings"
)

type Clause struct {
	Kind  string // requires, ensures, invariant, assert, ...
	Label string
	Props []string // per-clause property override
	Src   string
	Expr  ast.Expr
	File  string
	Line  int
	Free  bool // 'free' clause: assumed, never checked (listed as assumption)
	FromType bool // inherited from the contract of a function type the function implements
	Before string // backedge clauses: only on back edges taken before this body local is declared
	After  string // backedge clauses: only on back edges taken after this body local is declared
}

type ParamDecl struct {
	Name string
	Type string // Go type text (may be empty for repo functions)
}

type Contract struct {
	Func      string
	extensionOnly bool // created by an 'also' block; the defining 'func' block has not been seen yet
	Params    []ParamDecl // optional explicit parameter names (externals)
	Results   []ParamDecl
	Props     []string
	Assumed   bool
	Pure      bool // no heap effects at all
	Requires  []*Clause
	Ensures   []*Clause
	Modifies  []string // raw designators; nil means "infer", ["nothing"] -> none
	HasMod    bool
	Loops     map[int][]*Clause // loop ordinal -> invariants
	LoopEdges map[int][]*Clause // loop ordinal -> back-edge clauses
	SafetyOnly map[string]bool  // property -> only safety-kind obligations of this function belong to its check
	Reacquire []*ReacquireRule  // lock-protected state forgotten when the lock is taken again (locks.go)
	CallAsserts []*CallAssert
	NoCanary  bool
	Sweep     bool // safety-only sweep requested
	Opaque    bool // verify nothing in body; use as assumed (must have Assumed)
	AllocBound string
	File      string
	Line      int
	Notes     []string
	Abstract  bool // failures of safety obligations are not alarms (abstracted)
	Partial   bool // like Abstract, and callee preconditions that are not discharged are undecided, not alarms;
	// a callee's postcondition is then used only under its precondition (its frame is used regardless)
	Thread    bool
	FuncType  string // non-empty: this is the contract of the named function type (not of a function)
	Implements string // name of the function type whose contract this function inherits
	LockHeld  []string // requires lock tokens
	GhostSets []*GhostSet
}

// GhostSet is ghost code executed at every return: set G[idx] = val (or G = val).
type GhostSet struct {
	Ghost string
	Idx   ast.Expr // nil for scalar ghosts
	Val   ast.Expr
	Src   string
	Line  int
}

type CallAssert struct {
	Callee string // callee key or pattern
	Ord    int    // 0 = every site
	Clause *Clause
	When   string // "before" (default) or "after"
}

type SpecFun struct {
	Name    string
	Params  []ParamDecl
	Result  string
	Body    ast.Expr // nil if uninterpreted
	BodySrc string
	SMTBody string // raw SMT body if given with smt:
}

type Rule struct {
	Name    string
	Callees []string // patterns
	Clause  *Clause
	Props   []string
	Scope   []string // function name patterns the rule applies in
}

type Spec struct {
	Contracts map[string]*Contract
	SpecFuns  map[string]*SpecFun
	Axioms    []*Clause
	Ghosts    map[string]string // name -> Go type text
	AllocInits map[string][]*GhostSet // Go type text -> ghost initialisation at allocation
	Lemmas    []*Lemma
	Writers   []*WritersRule
	Tables    []*TableRule
	Guarded   []*GuardRule
	Rules     []*Rule
	Order     []string
}

type Lemma struct {
	Name   string
	Props  []string
	Vars   []ParamDecl
	Hyps   []*Clause
	Concl  []*Clause
	File   string
	Line   int
}

var labelRe = regexp.MustCompile(`^\[([A-Za-z0-9_\-\.]+)\]\s*`)
var propsRe = regexp.MustCompile(`^\{([A-Z0-9, ]+)\}\s*`)

func loadSpecs(paths []string) (*Spec, error) {
	sp := &Spec{Contracts: map[string]*Contract{}, SpecFuns: map[string]*SpecFun{}, Ghosts: map[string]string{}}
	var files []string
	for _, p := range paths {
		m, _ := filepath.Glob(p)
		sort.Strings(m)
		files = append(files, m...)
	}
	for _, f := range files {
		if err := sp.parseFile(f); err != nil {
			return nil, err
		}
	}
	return sp, nil
}

type rawClause struct {
	kw   string
	text string
	line int
}

var keywords = map[string]bool{
	"func": true, "requires": true, "ensures": true, "modifies": true, "loop": true, "prop": true,
	"assumed": true, "pure": true, "specfun": true, "specdef": true, "axiom": true, "ghost": true,
	"lemma": true, "var": true, "hyp": true, "concl": true, "callassert": true, "nocanary": true,
	"sweep": true, "note": true, "rule": true, "abstract": true, "free": true, "end": true, "thread": true,
	"allocbound": true, "results": true, "atreturn": true, "guarded": true, "allocinit": true,
	"writers": true, "functype": true, "partial": true, "also": true, "table": true, "reacquire": true,
}

func (sp *Spec) parseFile(path string) error {
	data, err := os.ReadFile(path)
	if err != nil {
		return err
	}
	var raws []rawClause
	for i, line := range strings.Split(string(data), "\n") {
		t := strings.TrimSpace(line)
		if !strings.HasPrefix(t, "//@") {
			continue
		}
		body := strings.TrimPrefix(t, "//@")
		// strip trailing comment "// ..." not inside string
		if k := commentStart(body); k >= 0 {
			body = body[:k]
		}
		body = strings.TrimSpace(body)
		if body == "" {
			continue
		}
		first := body
		rest := ""
		if k := strings.IndexAny(body, " \t"); k >= 0 {
			first, rest = body[:k], strings.TrimSpace(body[k+1:])
		}
		if keywords[first] {
			raws = append(raws, rawClause{first, rest, i + 1})
		} else if len(raws) > 0 {
			raws[len(raws)-1].text += " " + body
		} else {
			return fmt.Errorf("%s:%d: continuation without clause", path, i+1)
		}
	}
	var cur *Contract
	var curLemma *Lemma
	var curRule *Rule
	free := false
	mk := func(kind string, rc rawClause) (*Clause, error) {
		txt := rc.text
		c := &Clause{Kind: kind, File: path, Line: rc.line, Free: free}
		free = false
		if m := labelRe.FindStringSubmatch(txt); m != nil {
			c.Label = m[1]
			txt = txt[len(m[0]):]
		}
		if m := propsRe.FindStringSubmatch(txt); m != nil {
			for _, p := range strings.Split(m[1], ",") {
				c.Props = append(c.Props, strings.TrimSpace(p))
			}
			txt = txt[len(m[0]):]
		}
		c.Src = txt
		e, err := parseSpecExpr(txt)
		if err != nil {
			return nil, fmt.Errorf("%s:%d: %v in %q", path, rc.line, err, txt)
		}
		c.Expr = e
		return c, nil
	}
	for _, rc := range raws {
		switch rc.kw {
		case "free":
			free = true
			// "free requires ..." on one line
			if rc.text != "" {
				parts := strings.SplitN(rc.text, " ", 2)
				if len(parts) == 2 && (parts[0] == "requires" || parts[0] == "ensures") && cur != nil {
					c, err := mk(parts[0], rawClause{parts[0], parts[1], rc.line})
					if err != nil {
						return err
					}
					c.Free = true
					if parts[0] == "requires" {
						cur.Requires = append(cur.Requires, c)
					} else {
						cur.Ensures = append(cur.Ensures, c)
					}
				}
			}
		case "writers":
			w, err := parseWriters(rc.text, path, rc.line)
			if err != nil {
				return err
			}
			sp.Writers = append(sp.Writers, w)
		case "reacquire":
			// reacquire <lock> : <designators> ; <invariant>
			if cur == nil {
				return fmt.Errorf("%s:%d: reacquire outside func", path, rc.line)
			}
			i := strings.Index(rc.text, ":")
			j := strings.Index(rc.text, ";")
			if i < 0 || j < i {
				return fmt.Errorf("%s:%d: expected 'reacquire <lock> : <designators> ; <invariant>'", path, rc.line)
			}
			rule := &ReacquireRule{LockSrc: strings.TrimSpace(rc.text[:i]), File: path, Line: rc.line}
			for _, d := range splitTop(rc.text[i+1:j], ',') {
				if d = strings.TrimSpace(d); d != "" {
					rule.Mods = append(rule.Mods, d)
				}
			}
			inv, err := mk("invariant", rawClause{"invariant", strings.TrimSpace(rc.text[j+1:]), rc.line})
			if err != nil {
				return err
			}
			rule.Inv = inv
			cur.Reacquire = append(cur.Reacquire, rule)
		case "guarded":
			gr, err := parseGuarded(rc.text, path, rc.line)
			if err != nil {
				return fmt.Errorf("%s:%d: %v", path, rc.line, err)
			}
			sp.Guarded = append(sp.Guarded, gr)
		case "table":
			t, err := parseTable(rc.text, path, rc.line)
			if err != nil {
				return err
			}
			sp.Tables = append(sp.Tables, t)
		case "end":
			cur, curLemma, curRule = nil, nil, nil
		case "func", "functype":
			curLemma, curRule = nil, nil
			name, params := splitNameParams(rc.text)
			ftype := ""
			if rc.kw == "functype" {
				ftype = name
				name = "type:" + name
			}
			if ex, dup := sp.Contracts[name]; dup {
				if !ex.extensionOnly {
					return fmt.Errorf("%s:%d: duplicate contract for %s", path, rc.line, name)
				}
				// clauses were added by an earlier 'also' block: this is the defining block
				ex.extensionOnly = false
				ex.Params, ex.File, ex.Line, ex.FuncType = params, path, rc.line, ftype
				cur = ex
				break
			}
			cur = &Contract{Func: name, Params: params, Loops: map[int][]*Clause{}, File: path, Line: rc.line, FuncType: ftype}
			sp.Contracts[name] = cur
			sp.Order = append(sp.Order, name)
		case "also":
			// '//@ also F': further clauses for a function whose contract is defined in another block or file
			curLemma, curRule = nil, nil
			name, _ := splitNameParams(rc.text)
			if ex, ok := sp.Contracts[name]; ok {
				cur = ex
				break
			}
			cur = &Contract{Func: name, Loops: map[int][]*Clause{}, File: path, Line: rc.line, extensionOnly: true}
			sp.Contracts[name] = cur
			sp.Order = append(sp.Order, name)
		case "results":
			if cur != nil {
				_, ps := splitNameParams("x(" + rc.text + ")")
				cur.Results = ps
			}
		case "prop":
			ps := strings.Fields(strings.ReplaceAll(rc.text, ",", " "))
			if cur != nil {
				// "Cxx:safety": the function belongs to Cxx's check with its safety obligations only (no panic,
				// allocation bounds, callee preconditions); its functional clauses are checked under the other
				// properties it lists
				for i, p := range ps {
					if strings.HasSuffix(p, ":safety") {
						p = strings.TrimSuffix(p, ":safety")
						ps[i] = p
						if cur.SafetyOnly == nil {
							cur.SafetyOnly = map[string]bool{}
						}
						cur.SafetyOnly[p] = true
					}
				}
				cur.Props = append(cur.Props, ps...)
			} else if curLemma != nil {
				curLemma.Props = append(curLemma.Props, ps...)
			} else if curRule != nil {
				curRule.Props = append(curRule.Props, ps...)
			}
		case "assumed":
			if cur != nil {
				cur.Assumed = true
			}
		case "pure":
			if cur != nil {
				cur.Pure = true
				cur.HasMod = true
			}
		case "nocanary":
			if cur != nil {
				cur.NoCanary = true
			}
		case "sweep":
			if cur != nil {
				cur.Sweep = true
			}
		case "abstract":
			if cur != nil {
				cur.Abstract = true
			}
		case "thread":
			if cur != nil {
				cur.Thread = true
			}
		case "partial":
			if cur != nil {
				cur.Partial = true
				cur.Abstract = true
			}
		case "allocbound":
			if cur != nil {
				cur.AllocBound = rc.text
			}
		case "note":
			if cur != nil {
				cur.Notes = append(cur.Notes, rc.text)
			}
		case "requires", "ensures":
			if cur == nil {
				return fmt.Errorf("%s:%d: %s outside func", path, rc.line, rc.kw)
			}
			c, err := mk(rc.kw, rc)
			if err != nil {
				return err
			}
			if rc.kw == "requires" {
				cur.Requires = append(cur.Requires, c)
			} else {
				cur.Ensures = append(cur.Ensures, c)
			}
		case "modifies":
			if cur == nil {
				return fmt.Errorf("%s:%d: modifies outside func", path, rc.line)
			}
			cur.HasMod = true
			for _, m := range splitTop(rc.text, ',') {
				m = strings.TrimSpace(m)
				if m != "" && m != "nothing" {
					cur.Modifies = append(cur.Modifies, m)
				}
			}
		case "loop":
			if cur == nil {
				return fmt.Errorf("%s:%d: loop outside func", path, rc.line)
			}
			parts := strings.SplitN(rc.text, " ", 3)
			if len(parts) == 3 && parts[1] == "backedge" {
				// loop K backedge [label] {props} [before X :] E
				// E must hold whenever control goes back to the head of loop K; it is evaluated where the edge
				// leaves the body, so locals of the body are in scope. 'before X' restricts the clause to the
				// back edges taken before the body's local X has been declared (e.g. an early 'continue').
				k, err := strconv.Atoi(parts[0])
				if err != nil {
					return fmt.Errorf("%s:%d: bad loop ordinal", path, rc.line)
				}
				txt := parts[2]
				before, after := "", ""
				for _, kw := range []string{"before ", "after "} {
					bi := strings.Index(txt, "} "+kw)
					if bi >= 0 {
						bi += 2
					} else if bi = strings.Index(txt, "] "+kw); bi >= 0 {
						bi += 2
					} else if strings.HasPrefix(txt, kw) {
						bi = 0
					}
					if bi < 0 {
						continue
					}
					j := strings.Index(txt[bi:], ":")
					if j < 0 {
						continue
					}
					name := strings.TrimSpace(txt[bi+len(kw) : bi+j])
					txt = strings.TrimSpace(txt[:bi]) + " " + strings.TrimSpace(txt[bi+j+1:])
					if kw == "before " {
						before = name
					} else {
						after = name
					}
				}
				c, err := mk("backedge", rawClause{"backedge", strings.TrimSpace(txt), rc.line})
				if err != nil {
					return err
				}
				c.Before, c.After = before, after
				if cur.LoopEdges == nil {
					cur.LoopEdges = map[int][]*Clause{}
				}
				cur.LoopEdges[k] = append(cur.LoopEdges[k], c)
				break
			}
			if len(parts) < 3 || parts[1] != "invariant" {
				return fmt.Errorf("%s:%d: expected 'loop K invariant E'", path, rc.line)
			}
			k, err := strconv.Atoi(parts[0])
			if err != nil {
				return fmt.Errorf("%s:%d: bad loop ordinal", path, rc.line)
			}
			c, err := mk("invariant", rawClause{"invariant", parts[2], rc.line})
			if err != nil {
				return err
			}
			cur.Loops[k] = append(cur.Loops[k], c)
		case "atreturn":
			// atreturn set G[idx] = expr   |  atreturn set G = expr
			if cur == nil {
				return fmt.Errorf("%s:%d: atreturn outside func", path, rc.line)
			}
			txt := strings.TrimSpace(strings.TrimPrefix(strings.TrimSpace(rc.text), "set"))
			k := findTop(txt, " = ")
			if k < 0 {
				return fmt.Errorf("%s:%d: atreturn set G[i] = e", path, rc.line)
			}
			lhs, rhs := strings.TrimSpace(txt[:k]), strings.TrimSpace(txt[k+3:])
			gs := &GhostSet{Src: txt, Line: rc.line}
			if b := strings.Index(lhs, "["); b >= 0 {
				gs.Ghost = strings.TrimSpace(lhs[:b])
				ie, err := parseSpecExpr(lhs[b+1 : strings.LastIndex(lhs, "]")])
				if err != nil {
					return fmt.Errorf("%s:%d: %v", path, rc.line, err)
				}
				gs.Idx = ie
			} else {
				gs.Ghost = lhs
			}
			ve, err := parseSpecExpr(rhs)
			if err != nil {
				return fmt.Errorf("%s:%d: %v", path, rc.line, err)
			}
			gs.Val = ve
			cur.GhostSets = append(cur.GhostSets, gs)
		case "callassert":
			// callassert <callee>[#k] [after] : expr
			if cur == nil && curRule == nil {
				return fmt.Errorf("%s:%d: callassert outside func", path, rc.line)
			}
			idx := strings.Index(rc.text, ":")
			if idx < 0 {
				return fmt.Errorf("%s:%d: callassert needs ':'", path, rc.line)
			}
			head := strings.Fields(rc.text[:idx])
			c, err := mk("callassert", rawClause{"callassert", strings.TrimSpace(rc.text[idx+1:]), rc.line})
			if err != nil {
				return err
			}
			ca := &CallAssert{Clause: c, When: "before"}
			if len(head) > 0 {
				ca.Callee = head[0]
				if k := strings.Index(ca.Callee, "#"); k >= 0 {
					ca.Ord, _ = strconv.Atoi(ca.Callee[k+1:])
					ca.Callee = ca.Callee[:k]
				}
			}
			if len(head) > 1 && head[1] == "after" {
				ca.When = "after"
			}
			cur.CallAsserts = append(cur.CallAsserts, ca)
		case "specfun", "specdef":
			cur, curLemma, curRule = nil, nil, nil
			sf, err := parseSpecFun(rc.kw, rc.text)
			if err != nil {
				return fmt.Errorf("%s:%d: %v", path, rc.line, err)
			}
			sp.SpecFuns[sf.Name] = sf
		case "axiom":
			cur, curLemma, curRule = nil, nil, nil
			c, err := mk("axiom", rc)
			if err != nil {
				return err
			}
			sp.Axioms = append(sp.Axioms, c)
		case "ghost":
			parts := strings.Fields(rc.text)
			if len(parts) != 2 {
				return fmt.Errorf("%s:%d: ghost NAME TYPE", path, rc.line)
			}
			sp.Ghosts[parts[0]] = parts[1]
		case "allocinit":
			// allocinit <GoType> : G[this] = expr
			cur, curLemma, curRule = nil, nil, nil
			k := strings.Index(rc.text, ":")
			if k < 0 {
				return fmt.Errorf("%s:%d: allocinit TYPE : G[this] = e", path, rc.line)
			}
			typ := strings.TrimSpace(rc.text[:k])
			txt := strings.TrimSpace(rc.text[k+1:])
			e := findTop(txt, " = ")
			if e < 0 {
				return fmt.Errorf("%s:%d: allocinit needs ' = '", path, rc.line)
			}
			lhs, rhs := strings.TrimSpace(txt[:e]), strings.TrimSpace(txt[e+3:])
			gs := &GhostSet{Src: txt, Line: rc.line}
			if b := strings.Index(lhs, "["); b >= 0 {
				gs.Ghost = strings.TrimSpace(lhs[:b])
				ie, err := parseSpecExpr(lhs[b+1 : strings.LastIndex(lhs, "]")])
				if err != nil {
					return fmt.Errorf("%s:%d: %v", path, rc.line, err)
				}
				gs.Idx = ie
			} else {
				gs.Ghost = lhs
			}
			ve, err := parseSpecExpr(rhs)
			if err != nil {
				return fmt.Errorf("%s:%d: %v", path, rc.line, err)
			}
			gs.Val = ve
			if sp.AllocInits == nil {
				sp.AllocInits = map[string][]*GhostSet{}
			}
			sp.AllocInits[typ] = append(sp.AllocInits[typ], gs)
		case "lemma":
			cur, curRule = nil, nil
			curLemma = &Lemma{Name: strings.TrimSpace(rc.text), File: path, Line: rc.line}
			sp.Lemmas = append(sp.Lemmas, curLemma)
		case "var":
			if curLemma == nil {
				return fmt.Errorf("%s:%d: var outside lemma", path, rc.line)
			}
			_, ps := splitNameParams("x(" + rc.text + ")")
			curLemma.Vars = append(curLemma.Vars, ps...)
		case "hyp", "concl":
			if curLemma == nil {
				return fmt.Errorf("%s:%d: %s outside lemma", path, rc.line, rc.kw)
			}
			c, err := mk(rc.kw, rc)
			if err != nil {
				return err
			}
			if rc.kw == "hyp" {
				curLemma.Hyps = append(curLemma.Hyps, c)
			} else {
				curLemma.Concl = append(curLemma.Concl, c)
			}
		}
	}
	return nil
}

func commentStart(s string) int {
	inStr := false
	var q byte
	for i := 0; i+1 < len(s); i++ {
		c := s[i]
		if inStr {
			if c == '\\' {
				i++
				continue
			}
			if c == q {
				inStr = false
			}
			continue
		}
		if c == '"' || c == '\'' || c == '`' {
			inStr = true
			q = c
			continue
		}
		if c == '/' && s[i+1] == '/' {
			return i
		}
	}
	return -1
}

func splitNameParams(s string) (string, []ParamDecl) {
	s = strings.TrimSpace(s)
	i := strings.Index(s, "(")
	if i < 0 {
		return s, nil
	}
	name := strings.TrimSpace(s[:i])
	j := strings.LastIndex(s, ")")
	if j < i {
		return name, nil
	}
	var ps []ParamDecl
	for _, p := range splitTop(s[i+1:j], ',') {
		p = strings.TrimSpace(p)
		if p == "" {
			continue
		}
		parts := strings.SplitN(p, " ", 2)
		pd := ParamDecl{Name: parts[0]}
		if len(parts) == 2 {
			pd.Type = strings.TrimSpace(parts[1])
		}
		ps = append(ps, pd)
	}
	// propagate types backwards: "a, b int"
	for k := len(ps) - 2; k >= 0; k-- {
		if ps[k].Type == "" {
			ps[k].Type = ps[k+1].Type
		}
	}
	return name, ps
}

func parseSpecFun(kw, text string) (*SpecFun, error) {
	// name(params) Result [= body]
	body := ""
	if kw == "specdef" {
		k := strings.Index(text, " = ")
		if k < 0 {
			return nil, fmt.Errorf("specdef needs ' = body'")
		}
		body = strings.TrimSpace(text[k+3:])
		text = text[:k]
	}
	j := strings.LastIndex(text, ")")
	if j < 0 {
		return nil, fmt.Errorf("bad specfun %q", text)
	}
	name, ps := splitNameParams(text[:j+1])
	sf := &SpecFun{Name: name, Params: ps, Result: strings.TrimSpace(text[j+1:])}
	if body != "" {
		if strings.HasPrefix(body, "smt:") {
			sf.SMTBody = strings.TrimSpace(body[4:])
		} else {
			e, err := parseSpecExpr(body)
			if err != nil {
				return nil, fmt.Errorf("%v in %q", err, body)
			}
			sf.Body = e
			sf.BodySrc = body
		}
	}
	return sf, nil
}

// splitTop splits s at top-level occurrences of sep (outside (), [], {}, strings).
func splitTop(s string, sep byte) []string {
	var out []string
	depth := 0
	inStr := false
	var q byte
	start := 0
	for i := 0; i < len(s); i++ {
		c := s[i]
		if inStr {
			if c == '\\' {
				i++
				continue
			}
			if c == q {
				inStr = false
			}
			continue
		}
		switch c {
		case '"', '\'', '`':
			inStr = true
			q = c
		case '(', '[', '{':
			depth++
		case ')', ']', '}':
			depth--
		default:
			if c == sep && depth == 0 {
				out = append(out, s[start:i])
				start = i + 1
			}
		}
	}
	out = append(out, s[start:])
	return out
}

// findTop finds first top-level occurrence of op in s; -1 if none
func findTop(s, op string) int {
	depth := 0
	inStr := false
	var q byte
	for i := 0; i < len(s); i++ {
		c := s[i]
		if inStr {
			if c == '\\' {
				i++
				continue
			}
			if c == q {
				inStr = false
			}
			continue
		}
		switch c {
		case '"', '\'', '`':
			inStr = true
			q = c
		case '(', '[', '{':
			depth++
		case ')', ']', '}':
			depth--
		}
		if depth == 0 && strings.HasPrefix(s[i:], op) {
			return i
		}
	}
	return -1
}

// desugar rewrites `a ==> b` into implies(a, b) and `a <==> b` into iff(a,b), recursively.
func desugar(s string) string {
	// first desugar inside groups
	var b strings.Builder
	depth := 0
	inStr := false
	var q byte
	start := -1
	for i := 0; i < len(s); i++ {
		c := s[i]
		if inStr {
			if depth == 0 {
				b.WriteByte(c)
			}
			if c == '\\' {
				i++
				if depth == 0 && i < len(s) {
					b.WriteByte(s[i])
				}
				continue
			}
			if c == q {
				inStr = false
			}
			continue
		}
		switch c {
		case '"', '\'', '`':
			inStr = true
			q = c
			if depth == 0 {
				b.WriteByte(c)
			}
		case '(', '[':
			if depth == 0 {
				b.WriteByte(c)
				start = i + 1
			}
			depth++
		case ')', ']':
			depth--
			if depth == 0 {
				inner := s[start:i]
				parts := splitTop(inner, ',')
				for k, p := range parts {
					if k > 0 {
						b.WriteByte(',')
					}
					b.WriteString(desugar(p))
				}
				b.WriteByte(c)
			}
		default:
			if depth == 0 {
				b.WriteByte(c)
			}
		}
	}
	t := b.String()
	if k := findTop(t, "<==>"); k >= 0 {
		return "iff(" + desugar(t[:k]) + ", " + desugar(t[k+4:]) + ")"
	}
	if k := findTop(t, "==>"); k >= 0 {
		return "implies(" + desugar(t[:k]) + ", " + desugar(t[k+3:]) + ")"
	}
	return t
}

func parseSpecExpr(s string) (ast.Expr, error) {
	d := desugar(s)
	return parser.ParseExpr(d)
}
