package main

// mem.go: places, loads and stores.

import (
	"fmt"
	"go/types"
	"strings"

	"golang.org/x/tools/go/ssa"
)

func deref(t types.Type) types.Type {
	if p, ok := t.Underlying().(*types.Pointer); ok {
		return p.Elem()
	}
	return t
}

// isDirect decides whether an Alloc can be modelled as a direct cell (address never escapes).
func isDirectAlloc(a *ssa.Alloc) bool {
	refs := a.Referrers()
	if refs == nil {
		return false
	}
	return onlyLocalUses(a, *refs, 0)
}

func onlyLocalUses(v ssa.Value, refs []ssa.Instruction, depth int) bool {
	if depth > 6 {
		return false
	}
	for _, r := range refs {
		switch in := r.(type) {
		case *ssa.Store:
			if in.Val == v {
				return false // address stored somewhere
			}
		case *ssa.UnOp:
			if in.Op.String() != "*" {
				return false
			}
		case *ssa.DebugRef:
		case *ssa.Slice:
			if in.X != v {
				return false
			}
		case *ssa.FieldAddr:
			if rr := in.Referrers(); rr == nil || !onlyLocalUses(in, *rr, depth+1) {
				return false
			}
		case *ssa.IndexAddr:
			if in.X != v {
				return false
			}
			if rr := in.Referrers(); rr == nil || !onlyLocalUses(in, *rr, depth+1) {
				return false
			}
		default:
			return false
		}
	}
	return true
}

// placeOfAlloc returns the place for an Alloc instruction's value.
func (fv *FuncVC) placeOfAlloc(a *ssa.Alloc) *Place {
	t := deref(a.Type())
	return &Place{Kind: PLocal, Local: a, Root: t, Typ: t}
}

// rootTerm reads the root value of a place in state st.
func (fv *FuncVC) rootTerm(st *State, p *Place) string {
	switch p.Kind {
	case PLocal:
		if t, ok := st.cells[p.Local]; ok {
			return t
		}
		// not yet assigned: zero value
		return fv.g.sorts.zero(p.Root)
	case PGlobal:
		name, sort := fv.globalVar(p.Global)
		return fv.heapAt(st, name, sort)
	case PHeap:
		h := fv.heapAt(st, p.Heap, "(Array Int "+fv.g.sorts.sortOf(p.Root)+")")
		return "(select " + h + " " + p.Ref + ")"
	case PElem:
		hn, hs := fv.g.elemHeap(p.Root)
		h := fv.heapAt(st, hn, hs)
		return "(select (select " + h + " " + p.Ref + ") " + p.Idx + ")"
	}
	panic("bad place")
}

func (fv *FuncVC) globalVar(g *ssa.Global) (string, string) {
	t := deref(g.Type())
	pk := ""
	if g.Pkg != nil && g.Pkg.Pkg.Path() != "github.com/absfs/absnfs" {
		pk = sanitize(g.Pkg.Pkg.Path()) + "."
	}
	return "G$" + pk + g.Name(), fv.g.sorts.sortOf(t)
}

// selectPath applies path steps to a root term.
func (fv *FuncVC) selectPath(root string, path []pathStep) string {
	t := root
	for _, s := range path {
		if s.field >= 0 {
			st := s.typ.Underlying().(*types.Struct)
			sn := fv.g.sorts.structSort(s.typ, st)
			t = "(" + fieldAcc(sn, s.field) + " " + t + ")"
		} else {
			t = "(select " + t + " " + s.idx + ")"
		}
	}
	return t
}

// updatePath returns root with the location at path replaced by val.
func (fv *FuncVC) updatePath(root string, path []pathStep, val string) string {
	if len(path) == 0 {
		return val
	}
	s := path[0]
	if s.field >= 0 {
		st := s.typ.Underlying().(*types.Struct)
		sn := fv.g.sorts.structSort(s.typ, st)
		parts := []string{"mk!" + sn}
		for i := 0; i < st.NumFields(); i++ {
			sub := "(" + fieldAcc(sn, i) + " " + root + ")"
			if i == s.field {
				parts = append(parts, fv.updatePath(sub, path[1:], val))
			} else {
				parts = append(parts, sub)
			}
		}
		return "(" + strings.Join(parts, " ") + ")"
	}
	sub := "(select " + root + " " + s.idx + ")"
	return "(store " + root + " " + s.idx + " " + fv.updatePath(sub, path[1:], val) + ")"
}

func (fv *FuncVC) loadPlace(st *State, p *Place) *Val {
	// whole-struct load of a (recursively flattened) struct stored in field heaps
	if isHeapAggregate(p) {
		u := p.Typ.Underlying().(*types.Struct)
		sn := fv.g.sorts.structSort(p.Typ, u)
		if u.NumFields() == 0 {
			return &Val{T: "mk!" + sn, Typ: p.Typ}
		}
		parts := []string{"mk!" + sn}
		for i := 0; i < u.NumFields(); i++ {
			parts = append(parts, fv.loadPlace(st, fv.fieldPlace(p, i)).T)
		}
		return &Val{T: "(" + strings.Join(parts, " ") + ")", Typ: p.Typ}
	}
	root := fv.rootTerm(st, p)
	t := fv.selectPath(root, p.Path)
	return &Val{T: t, Typ: p.Typ}
}

// loadStruct builds the datatype value of the struct object at ref.
func (fv *FuncVC) loadStruct(st *State, ref string, t types.Type) *Val {
	u := t.Underlying().(*types.Struct)
	sn := fv.g.sorts.structSort(t, u)
	if u.NumFields() == 0 {
		return &Val{T: "mk!" + sn, Typ: t}
	}
	parts := []string{"mk!" + sn}
	for i := 0; i < u.NumFields(); i++ {
		hn, hs := fv.g.fieldHeap(t, i)
		parts = append(parts, "(select "+fv.heapAt(st, hn, hs)+" "+ref+")")
	}
	return &Val{T: "(" + strings.Join(parts, " ") + ")", Typ: t}
}

func (fv *FuncVC) storePlace(p *Place, v *Val) {
	val := v.T
	if isHeapAggregate(p) {
		// whole struct store: distribute over the (recursively flattened) field heaps
		u := p.Typ.Underlying().(*types.Struct)
		sn := fv.g.sorts.structSort(p.Typ, u)
		vt := fv.name("sv", sn, val)
		for i := 0; i < u.NumFields(); i++ {
			fv.storePlace(fv.fieldPlace(p, i), &Val{T: "(" + fieldAcc(sn, i) + " " + vt + ")", Typ: u.Field(i).Type()})
		}
		return
	}
	switch p.Kind {
	case PLocal:
		root := fv.rootTerm(fv.cur, p)
		nv := fv.updatePath(root, p.Path, val)
		fv.cur.cells[p.Local] = fv.name("c."+p.Local.Comment, fv.g.sorts.sortOf(p.Root), nv)
	case PGlobal:
		name, sort := fv.globalVar(p.Global)
		root := fv.heapGet(name, sort)
		fv.heapSet(name, sort, fv.updatePath(root, p.Path, val))
	case PHeap:
		hs := "(Array Int " + fv.g.sorts.sortOf(p.Root) + ")"
		h := fv.heapGet(p.Heap, hs)
		root := "(select " + h + " " + p.Ref + ")"
		fv.heapSet(p.Heap, hs, "(store "+h+" "+p.Ref+" "+fv.updatePath(root, p.Path, val)+")")
	case PElem:
		hn, hs := fv.g.elemHeap(p.Root)
		h := fv.heapGet(hn, hs)
		arr := "(select " + h + " " + p.Ref + ")"
		root := "(select " + arr + " " + p.Idx + ")"
		fv.heapSet(hn, hs, "(store "+h+" "+p.Ref+" (store "+arr+" "+p.Idx+" "+fv.updatePath(root, p.Path, val)+"))")
	}
}

// placeFromPointer converts a pointer value to a place designating *ptr.
func (fv *FuncVC) placeFromPointer(v *Val) *Place {
	if v.Place != nil {
		return v.Place
	}
	et := deref(v.Typ)
	if _, ok := et.Underlying().(*types.Struct); ok {
		return &Place{Kind: PHeap, Heap: "", Ref: v.T, Root: et, Typ: et}
	}
	hn, _ := fv.g.cellHeap(et)
	return &Place{Kind: PHeap, Heap: hn, Ref: v.T, Root: et, Typ: et}
}

// fieldPlace returns the place of field i of the struct designated by place p (p designates a struct).
func (fv *FuncVC) fieldPlace(p *Place, i int) *Place {
	st := p.Typ.Underlying().(*types.Struct)
	ft := st.Field(i).Type()
	if isHeapAggregate(p) {
		return &Place{Kind: PHeap, Heap: fv.subHeapName(p, i), Ref: p.Ref, Root: ft, Typ: ft}
	}
	np := *p
	np.Path = append(append([]pathStep{}, p.Path...), pathStep{field: i, typ: p.Typ})
	np.Typ = ft
	return &np
}

// placeToValue converts a sub-location place to an opaque pointer value (address identity only).
func (fv *FuncVC) placeToValue(p *Place, ptrType types.Type) string {
	switch p.Kind {
	case PHeap:
		if p.Heap == "" {
			return p.Ref
		}
		if strings.HasPrefix(p.Heap, "C$") && len(p.Path) == 0 {
			return p.Ref
		}
		fn := "fa$" + p.Heap
		for _, s := range p.Path {
			if s.field >= 0 {
				fn += fmt.Sprintf(".%d", s.field)
			} else {
				fn += ".i"
			}
		}
		// concrete injective encoding: distinct fields give disjoint address ranges
		if _, ok := fv.g.extraDecl[fn]; !ok {
			k := len(fv.g.extraDecl) + 1
			fv.g.declareGlobal(fn, fmt.Sprintf("(define-fun %s ((x Int)) Int (+ (* x 65536) %d))", fn, k))
		}
		return "(" + fn + " " + p.Ref + ")"
	case PLocal:
		fn := "la$" + sanitize(fv.key) + "$" + sanitize(p.Local.Name())
		fv.g.declareGlobal(fn, fmt.Sprintf("(declare-const %s Int)", fn))
		return fn
	case PGlobal:
		fn := "ga$" + sanitize(p.Global.Name())
		fv.g.declareGlobal(fn, fmt.Sprintf("(declare-const %s Int)", fn))
		return fn
	case PElem:
		fn := "ea$"
		fv.g.declareGlobal(fn, "(declare-fun ea$ (Int Int) Int)")
		return "(ea$ " + p.Ref + " " + p.Idx + ")"
	}
	return "0"
}
