package main

// driver.go: per-function driver: entry, block merging, loops, returns, frame.

import (
	"fmt"
	"go/ast"
	"go/types"
	"sort"
	"strings"

	"golang.org/x/tools/go/ssa"
)

func (g *Gen) newFuncVC(fn *ssa.Function, con *Contract) *FuncVC {
	fv := &FuncVC{g: g, fn: fn, con: con, key: "?"}
	if fn != nil {
		fv.key = funcKey(fn)
	}
	fv.reset()
	return fv
}

func (fv *FuncVC) reset() {
	fv.lines = nil
	fv.declared = map[string]bool{}
	fv.obls = nil
	fv.nCanary = 0
	fv.edgeHits = nil
	fv.acquired = nil
	fv.regs = map[ssa.Value]*Val{}
	fv.direct = map[*ssa.Alloc]bool{}
	fv.heapSort = map[string]string{}
	fv.nfresh = 0
	fv.reach = map[*ssa.BasicBlock]string{}
	fv.outState = map[*ssa.BasicBlock]*State{}
	fv.edgeCond = map[[2]int]string{}
	fv.params = map[string]*Val{}
	fv.paramList = nil
	fv.notes = nil
	fv.unsupported = nil
	fv.safetyN = map[string]int{}
	fv.callOrd = map[string]int{}
	fv.deferInfos = nil
	fv.extCalls = map[string]bool{}
	fv.uncontracted = map[string]bool{}
	fv.assumedUsed = map[string]bool{}
	fv.mapIters = map[*ssa.Range]*mapIter{}
	fv.localsByName = map[string][]*ssa.Alloc{}
	fv.privCells = map[*ssa.Alloc]bool{}
	fv.arrSnaps = nil
	fv.allocSizes = nil
	fv.sawStarHavoc = false
	fv.strEqDone = nil
	fv.lockOps = 0
	fv.frameT = nil
	fv.frameAll = false
	fv.cardDone = nil
	fv.allocBoundTerm = ""
	fv.lockIDs = nil
	fv.guardN = nil
	fv.lockClass = nil
	fv.relockN = 0
	fv.caHits = nil
	fv.pc = "true"
	fv.cur = &State{cells: map[*ssa.Alloc]string{}, heaps: map[string]string{}}
}

// Generate produces the obligations for the function (two passes: heap discovery, then final).
func (fv *FuncVC) Generate() {
	fv.runOnce()
	known := fv.heapSort
	fv.reset()
	for _, name := range sortedKeys(known) {
		fv.heapGet(name, known[name])
	}
	fv.runOnce()
	if fv.con != nil && fv.con.AllocBound != "" {
		// every allocation (make / append growth) in this function is at most the stated number of elements
		bound := fv.con.AllocBound
		if fv.allocBoundTerm != "" {
			bound = fv.allocBoundTerm
		}
		for i, site := range fv.allocSizes {
			ob := &Obligation{Name: fmt.Sprintf("%s#alloc-bound#%d", fv.key, i+1), Func: fv.key, Kind: "alloc-bound", Label: site.pos,
				Expect: "unsat", Prefix: site.prefix, Goal: "(<= " + site.size + " " + bound + ")", Reach: site.pc, Pos: site.pos,
				Src: "allocation size <= " + fv.con.AllocBound, fv: fv, Props: fv.con.Props}
			fv.obls = append(fv.obls, ob)
		}
	}
	for name := range fv.heapSort {
		if _, ok := known[name]; !ok && fv.sawStarHavoc {
			fv.unsupp("heap %s discovered late after wildcard havoc", name)
		}
	}
}

func (fv *FuncVC) runOnce() {
	fn := fv.fn
	g := fv.g
	fv.analyzeLoops()
	// classify allocs
	for _, b := range fn.Blocks {
		for _, in := range b.Instrs {
			if a, ok := in.(*ssa.Alloc); ok {
				fv.direct[a] = isDirectAlloc(a)
				if a.Comment != "" {
					fv.localsByName[a.Comment] = append(fv.localsByName[a.Comment], a)
				}
			}
		}
	}
	// lock heap, alloc counter
	fv.heapGet("alloc", "Int")
	fv.emit("(assert (> alloc@0 0))")
	// parameters
	for _, p := range fn.Params {
		v := fv.havocVal("p."+p.Name(), p.Type())
		fv.params[p.Name()] = v
		fv.paramList = append(fv.paramList, v)
	}
	for _, f := range fn.FreeVars {
		v := fv.havocVal("fv."+f.Name(), f.Type())
		fv.params[f.Name()] = v
		// a free variable is the address of a captured variable: never nil
		fv.emit("(assert (> " + v.T + " 0))")
	}
	fv.entry = fv.cur.clone()
	entryEnv := fv.entryEnv()
	con := fv.con
	// A-LOCKENTRY: unless the contract talks about held(...), the function is entered holding none of
	// the mutexes it acquires
	lockReq := false
	if con != nil {
		for _, r := range con.Requires {
			if strings.Contains(r.Src, "held(") {
				lockReq = true
			}
		}
	}
	if !lockReq {
		fv.heapGet("LOCK", "(Array Int Int)")
		fv.emit("(assert (= LOCK@0 ((as const (Array Int Int)) 0)))")
	} else if len(fv.g.spec.Guarded) > 0 {
		// ... and with held(...) in the contract: none but the mutexes the preconditions name
		fv.heapGet("LOCK", "(Array Int Int)")
		cur := "((as const (Array Int Int)) 0)"
		for _, r := range con.Requires {
			ast.Inspect(r.Expr, func(nd ast.Node) bool {
				if ce, ok := nd.(*ast.CallExpr); ok {
					if id, ok := ce.Fun.(*ast.Ident); ok && id.Name == "held" && len(ce.Args) == 1 {
						lid := entryEnv.addrOf(ce.Args[0])
						cur = "(store " + cur + " " + lid + " " + fv.fresh("held0", "Int") + ")"
						// a mutex held by precondition is one of the caller's locks for the no-relock obligations
						if sel, ok := ce.Args[0].(*ast.SelectorExpr); ok {
							if bv := entryEnv.tr(sel.X); bv != nil && bv.Typ != nil {
								if pt, ok := bv.Typ.Underlying().(*types.Pointer); ok {
									if named, ok := types.Unalias(pt.Elem()).(*types.Named); ok {
										fv.noteLockID(lid)
										if fv.lockClass == nil {
											fv.lockClass = map[string]string{}
										}
										fv.lockClass[lid] = named.Obj().Name() + "." + sel.Sel.Name
									}
								}
							}
						}
					}
				}
				return true
			})
		}
		fv.emit("(assert (= LOCK@0 " + cur + "))")
	}
	if con != nil {
		for _, r := range con.Requires {
			t := entryEnv.tr(r.Expr)
			fv.reportSpecErrs(entryEnv, r)
			if con.Implements != "" && !r.FromType && !r.Free {
				// a function reached through a function-typed value is called under the TYPE's precondition
				// only: its own requires must follow from it
				label := r.Label
				if label == "" {
					label = fmt.Sprintf("%d", r.Line)
				}
				fv.oblige("implements-pre", con.Implements+"#"+label, fv.propsFor(r), t.T, r.Src, "")
			}
			fv.assumeGlobal(t.T)
		}
		if con.AllocBound != "" {
			// the bound is an expression over the entry state
			if e, err := parseSpecExpr(con.AllocBound); err == nil {
				t := entryEnv.tr(e)
				fv.reportSpecErrs(entryEnv, &Clause{File: con.File, Line: con.Line})
				fv.allocBoundTerm = fv.name("allocbound", "Int", t.T)
			} else {
				fv.unsupp("spec error: bad allocbound %q", con.AllocBound)
			}
		}
		// vacuity guard: requires must be satisfiable
		fv.obls = append(fv.obls, &Obligation{Name: fv.key + "#requires-sat", Func: fv.key, Kind: "requires-sat", Expect: "sat",
			Prefix: len(fv.lines), Goal: "true", Reach: "true", fv: fv, Props: con.Props})
	}
	order := fv.topo()
	for _, b := range order {
		fv.enterBlock(b)
		if fv.reach[b] == "" {
			continue
		}
		for _, in := range b.Instrs {
			fv.curIn = in
			fv.execInstr(in)
		}
		fv.curIn = nil
		fv.leaveBlock(b)
	}
	_ = g
}

func (fv *FuncVC) entryEnv() *Env {
	env := &Env{fv: fv, st: fv.entry, old: fv.entry, vars: map[string]*Val{}, allocOld: "alloc@0"}
	for k, v := range fv.params {
		env.vars[k] = v
	}
	// free variables: name -> captured variable's value (pointer deref) at entry
	for _, f := range fv.fn.FreeVars {
		pv := fv.params[f.Name()]
		env.vars["&"+f.Name()] = pv
		env.vars[f.Name()] = fv.loadPlace(fv.entry, fv.placeFromPointer(pv))
	}
	return env
}

func (fv *FuncVC) mergeStates(states []*State, conds []string) *State {
	if len(states) == 1 {
		return states[0].clone()
	}
	out := &State{cells: map[*ssa.Alloc]string{}, heaps: map[string]string{}}
	// cells
	cellKeys := map[*ssa.Alloc]bool{}
	for _, s := range states {
		for k := range s.cells {
			cellKeys[k] = true
		}
	}
	var cks []*ssa.Alloc
	for k := range cellKeys {
		cks = append(cks, k)
	}
	sort.Slice(cks, func(i, j int) bool {
		if cks[i].Block().Index != cks[j].Block().Index {
			return cks[i].Block().Index < cks[j].Block().Index
		}
		return instrIndex(cks[i]) < instrIndex(cks[j])
	})
	for _, k := range cks {
		vals := make([]string, len(states))
		same := true
		for i, s := range states {
			v, ok := s.cells[k]
			if !ok {
				v = fv.g.sorts.zero(deref(k.Type()))
			}
			vals[i] = v
			if v != vals[0] {
				same = false
			}
		}
		if same {
			out.cells[k] = vals[0]
			continue
		}
		m := fv.fresh("phi."+k.Comment, fv.sortOf(deref(k.Type())))
		for i := range states {
			fv.emit("(assert " + implies(conds[i], eq(m, vals[i])) + ")")
		}
		out.cells[k] = m
	}
	heapKeys := map[string]bool{}
	for _, s := range states {
		for k := range s.heaps {
			heapKeys[k] = true
		}
	}
	for _, k := range sortedKeys(heapKeys) {
		vals := make([]string, len(states))
		same := true
		for i, s := range states {
			v, ok := s.heaps[k]
			if !ok {
				v = k + "@0"
			}
			vals[i] = v
			if v != vals[0] {
				same = false
			}
		}
		if same {
			out.heaps[k] = vals[0]
			continue
		}
		m := fv.fresh("phi."+k, fv.heapSort[k])
		for i := range states {
			fv.emit("(assert " + implies(conds[i], eq(m, vals[i])) + ")")
		}
		out.heaps[k] = m
	}
	return out
}

func (fv *FuncVC) enterBlock(b *ssa.BasicBlock) {
	fv.curBlock = b
	if b.Index == 0 {
		fv.reach[b] = "true"
		fv.pc = "true"
		fv.cur = fv.entry.clone()
		return
	}
	var states []*State
	var conds []string
	var preds []*ssa.BasicBlock
	for _, p := range b.Preds {
		if fv.backEdge[[2]int{p.Index, b.Index}] {
			continue
		}
		st, ok := fv.outState[p]
		if !ok || fv.reach[p] == "" {
			continue
		}
		c := fv.edgeCond[[2]int{p.Index, b.Index}]
		states = append(states, st)
		conds = append(conds, c)
		preds = append(preds, p)
	}
	if len(states) == 0 {
		fv.reach[b] = ""
		return
	}
	r := fv.fresh(fmt.Sprintf("r.b%d", b.Index), "Bool")
	fv.emit(fmt.Sprintf("(assert (= %s %s))", r, or(conds...)))
	fv.reach[b] = r
	_, isLoop := fv.loopOrd[b]
	if isLoop {
		// check invariants on entry edges
		for i, p := range preds {
			fv.cur = states[i]
			fv.pc = conds[i]
			fv.checkInvariants(b, "inv-init", p)
		}
	}
	fv.cur = fv.mergeStates(states, conds)
	fv.pc = r
	// phis
	for _, in := range b.Instrs {
		phi, ok := in.(*ssa.Phi)
		if !ok {
			break
		}
		if isLoop {
			fv.setReg(phi, fv.havocVal("phi", phi.Type()))
			continue
		}
		var term string
		first := true
		for i := len(preds) - 1; i >= 0; i-- {
			// find edge index in b.Preds
			var ev *Val
			for j, pp := range b.Preds {
				if pp == preds[i] {
					ev = fv.val(phi.Edges[j])
				}
			}
			if ev == nil {
				continue
			}
			if first {
				term = ev.T
				first = false
			} else {
				term = ite(conds[i], ev.T, term)
			}
		}
		fv.setReg(phi, &Val{T: fv.name("phi", fv.sortOf(phi.Type()), term), Typ: phi.Type()})
	}
	if isLoop {
		fv.havocLoop(b)
		fv.assumeInvariants(b)
	}
}

func (fv *FuncVC) invariantEnv(h *ssa.BasicBlock) *Env {
	env := &Env{fv: fv, st: fv.cur, old: fv.entry, vars: map[string]*Val{}, locals: true, at: h, allocOld: "alloc@0"}
	for k, v := range fv.params {
		env.vars["entry_"+k] = v
	}
	// parameters are mutable locals in Go: inside invariants a parameter name means its current value,
	// handled through locals resolution (naive SSA stores params into cells). Fallback to entry value.
	for k, v := range fv.params {
		if fv.findLocal(k, h) == nil {
			env.vars[k] = v
		}
	}
	fv.bindFreeVars(env, fv.cur)
	return env
}

func (fv *FuncVC) loopInvariants(h *ssa.BasicBlock) []*Clause {
	if fv.con == nil {
		return nil
	}
	return fv.con.Loops[fv.loopOrd[h]]
}

func (fv *FuncVC) checkInvariants(h *ssa.BasicBlock, kind string, from *ssa.BasicBlock) {
	fv.checkFrameInvariants(h, kind, from)
	for i, inv := range fv.loopInvariants(h) {
		env := fv.invariantEnv(h)
		t := env.tr(inv.Expr)
		fv.reportSpecErrs(env, inv)
		label := inv.Label
		if label == "" {
			label = fmt.Sprintf("%d", i+1)
		}
		fv.oblige(kind, fmt.Sprintf("loop%d#%s#from-b%d", fv.loopOrd[h], label, from.Index), fv.propsFor(inv), t.T, inv.Src, fv.posStr(fv.loopPos(h)))
	}
	if kind != "inv-preserve" || fv.con == nil {
		return
	}
	// back-edge clauses: evaluated in the scope of the block the edge leaves
	n := 0
	for i, ec := range fv.con.LoopEdges[fv.loopOrd[h]] {
		if ec.Before != "" {
			if a := fv.findLocal(ec.Before, from); a != nil && (a.Block() == from || a.Block().Dominates(from)) && fv.loopBody[h][a.Block()] {
				continue // the local is already declared on this edge: not an edge the clause is about
			}
		}
		if ec.After != "" {
			a := fv.findLocal(ec.After, from)
			if a == nil || !(a.Block() == from || a.Block().Dominates(from)) || !fv.loopBody[h][a.Block()] {
				continue // the local is not declared yet on this edge
			}
		}
		env := fv.invariantEnv(h)
		env.at = from
		t := env.tr(ec.Expr)
		fv.reportSpecErrs(env, ec)
		label := ec.Label
		if label == "" {
			label = fmt.Sprintf("edge%d", i+1)
		}
		fv.oblige("assert", fmt.Sprintf("loop%d#backedge#%s#from-b%d", fv.loopOrd[h], label, from.Index), fv.propsFor(ec), t.T, ec.Src, fv.posStr(fv.loopPos(h)))
		n++
		if fv.edgeHits == nil {
			fv.edgeHits = map[*Clause]int{}
		}
		fv.edgeHits[ec]++
	}
	_ = n
}

func (fv *FuncVC) assumeInvariants(h *ssa.BasicBlock) {
	fv.assumeFrameInvariants(h)
	for _, inv := range fv.loopInvariants(h) {
		env := fv.invariantEnv(h)
		t := env.tr(inv.Expr)
		fv.reportSpecErrs(env, inv)
		fv.assume(t.T)
	}
	if fv.con != nil && len(fv.loopInvariants(h)) > 0 {
		fv.obls = append(fv.obls, &Obligation{Name: fmt.Sprintf("%s#loop%d#inv-sat", fv.key, fv.loopOrd[h]), Func: fv.key, Kind: "requires-sat", Expect: "sat",
			Prefix: len(fv.lines), Goal: "true", Reach: fv.pc, fv: fv, Props: fv.con.Props})
	}
}

// havocLoop forgets everything the loop body may modify.
func (fv *FuncVC) havocLoop(h *ssa.BasicBlock) {
	body := fv.loopBody[h]
	cells := map[*ssa.Alloc]bool{}
	heaps := map[string]bool{}
	var blocks []*ssa.BasicBlock
	for b := range body {
		blocks = append(blocks, b)
	}
	sort.Slice(blocks, func(i, j int) bool { return blocks[i].Index < blocks[j].Index })
	for _, b := range blocks {
		for _, in := range b.Instrs {
			fv.g.instrWrites(fv.fn, in, cells, heaps, fv.direct)
		}
	}
	var cs []*ssa.Alloc
	for c := range cells {
		cs = append(cs, c)
	}
	sort.Slice(cs, func(i, j int) bool {
		if cs[i].Block().Index != cs[j].Block().Index {
			return cs[i].Block().Index < cs[j].Block().Index
		}
		return instrIndex(cs[i]) < instrIndex(cs[j])
	})
	for _, c := range cs {
		t := deref(c.Type())
		n := fv.fresh("lh."+c.Comment, fv.sortOf(t))
		fv.assumeType(n, t)
		fv.cur.cells[c] = n
	}
	if heaps["*"] {
		fv.havocMod(map[string]bool{"*": true}, nil)
	} else {
		for _, hn := range sortedKeys(heaps) {
			if hn == "?ext" {
				fv.havocMod(map[string]bool{"*": true}, nil)
				break
			}
		}
		for _, hn := range sortedKeys(heaps) {
			if fv.heapSort[hn] != "" {
				fv.heapHavoc(hn)
			}
		}
		// allocation counter may have grown
		a := fv.heapGet("alloc", "Int")
		na := fv.fresh("alloc", "Int")
		fv.emit(fmt.Sprintf("(assert (>= %s %s))", na, a))
		fv.cur.heaps["alloc"] = na
	}
	// map iteration: visited set is loop-modified
	for name := range fv.heapSort {
		if strings.HasPrefix(name, "VIS$") || strings.HasPrefix(name, "DF$") {
			if _, touched := fv.cur.heaps[name]; touched {
				if strings.HasPrefix(name, "VIS$") {
					fv.heapHavoc(name)
				}
			}
		}
	}
}

func (fv *FuncVC) leaveBlock(b *ssa.BasicBlock) {
	fv.outState[b] = fv.cur
	if len(b.Instrs) == 0 {
		return
	}
	r := fv.pc
	switch t := b.Instrs[len(b.Instrs)-1].(type) {
	case *ssa.If:
		c := fv.val(t.Cond).T
		cn := fv.name("br", "Bool", c)
		fv.setEdge(b, b.Succs[0], and(r, cn))
		fv.setEdge(b, b.Succs[1], and(r, not(cn)))
	case *ssa.Jump:
		fv.setEdge(b, b.Succs[0], r)
	case *ssa.Return:
		fv.atReturn(t)
	case *ssa.Panic:
	}
	// back edges: invariant preservation
	for _, s := range b.Succs {
		if fv.backEdge[[2]int{b.Index, s.Index}] {
			saved, savedPC := fv.cur, fv.pc
			fv.pc = fv.edgeCond[[2]int{b.Index, s.Index}]
			fv.checkInvariants(s, "inv-preserve", b)
			fv.cur, fv.pc = saved, savedPC
		}
	}
}

func (fv *FuncVC) setEdge(from, to *ssa.BasicBlock, cond string) {
	key := [2]int{from.Index, to.Index}
	if old, ok := fv.edgeCond[key]; ok {
		cond = or(old, cond) // both branches to the same block
	}
	fv.edgeCond[key] = cond
}

func (fv *FuncVC) atReturn(ret *ssa.Return) {
	con := fv.con
	var results []*Val
	for _, r := range ret.Results {
		results = append(results, fv.val(r))
	}
	fv.results = results
	if con == nil {
		return
	}
	env := &Env{fv: fv, st: fv.cur, old: fv.entry, vars: map[string]*Val{}, allocOld: "alloc@0"}
	for k, v := range fv.params {
		env.vars[k] = v
	}
	for _, f := range fv.fn.FreeVars {
		pv := fv.params[f.Name()]
		env.vars["&"+f.Name()] = pv
		env.vars[f.Name()] = fv.loadPlace(fv.cur, fv.placeFromPointer(pv))
	}
	var res *Val
	if len(results) == 1 {
		res = results[0]
	} else if len(results) > 1 {
		res = &Val{Tuple: results}
	}
	fv.bindResults(env, res, fv.fn, con, fv.fn.Signature)
	retID := fmt.Sprintf("ret-b%d", ret.Block().Index)
	for _, gs := range con.GhostSets {
		gt, ok := fv.g.spec.Ghosts[gs.Ghost]
		if !ok {
			fv.unsupp("spec error: atreturn: unknown ghost %s", gs.Ghost)
			continue
		}
		t := fv.g.resolveType(gt)
		name, sort := "GH$"+gs.Ghost, fv.sortOf(t)
		val := env.tr(gs.Val)
		if gs.Idx != nil {
			idx := env.tr(gs.Idx)
			if at, ok := t.Underlying().(*types.Array); ok && isFloat(at.Elem()) && !sortIsReal(env, val) {
				val = &Val{T: "(to_real " + val.T + ")", Typ: at.Elem()}
			}
			fv.heapSet(name, sort, "(store "+fv.heapGet(name, sort)+" "+idx.T+" "+val.T+")")
		} else {
			fv.heapSet(name, sort, val.T)
		}
		fv.reportSpecErrs(env, &Clause{File: con.File, Line: gs.Line})
	}
	for i, e := range con.Ensures {
		if e.Free {
			continue
		}
		t := env.tr(e.Expr)
		fv.reportSpecErrs(env, e)
		label := e.Label
		if label == "" {
			label = fmt.Sprintf("%d", i+1)
		}
		fv.oblige("ensures", label+"#"+retID, fv.propsFor(e), t.T, e.Src, fv.posStr(ret.Pos()))
		// postconditions are conjuncts: once one is established it may be used for the later ones
		// (clauses labelled kf-... are recorded known findings, expected to fail: never assumed)
		if !strings.HasPrefix(label, "kf-") {
			fv.assume(t.T)
		}
	}
	if con.HasMod {
		fv.frameObligations(env, retID)
	}
	// lock hygiene: locks held at exit must equal locks held at entry unless stated
	if h, ok := fv.cur.heaps["LOCK"]; ok && !con.HasLockEnsures() {
		// for every mutex this function (or a contracted callee) operates on
		var parts []string
		for _, id := range fv.lockIDs {
			parts = append(parts, eq("(select "+h+" "+id+")", "(select LOCK@0 "+id+")"))
		}
		if len(parts) > 0 {
			fv.oblige("lock", "balanced#"+retID, con.Props, and(parts...), "every mutex this function operates on is held at return exactly as at entry", fv.posStr(ret.Pos()))
		}
	}
	// exit canaries guard against a vacuous proof (every way out of the function infeasible under its contracts).
	// A function with dozens of returns (the procedure handlers) gets a sample of them: the first four and every
	// fourth after that - it is vacuous only if all of its returns are dead, so a sample decides that as well
	fv.nCanary++
	if !con.NoCanary && (fv.nCanary <= 4 || fv.nCanary%4 == 0) {
		fv.obls = append(fv.obls, &Obligation{Name: fmt.Sprintf("%s#canary#%s", fv.key, retID), Func: fv.key, Kind: "canary", Expect: "sat",
			Prefix: len(fv.lines), Goal: "true", Reach: fv.pc, fv: fv, Props: con.Props})
	}
}

func (c *Contract) HasLockEnsures() bool {
	for _, e := range c.Ensures {
		if strings.Contains(e.Src, "held(") {
			return true
		}
	}
	return false
}

// ---------- static write sets ----------

// instrWrites accumulates the cells/heaps instruction in may write.
func (g *Gen) instrWrites(fn *ssa.Function, in ssa.Instruction, cells map[*ssa.Alloc]bool, heaps map[string]bool, direct map[*ssa.Alloc]bool) {
	switch x := in.(type) {
	case *ssa.Store:
		g.addrWrites(x.Addr, cells, heaps, direct)
	case *ssa.MapUpdate:
		mt := x.Map.Type().Underlying().(*types.Map)
		dn, vn, cn, _, _ := g.mapHeaps(mt)
		heaps[dn], heaps[vn], heaps[cn] = true, true, true
	case *ssa.Alloc:
		if direct != nil && direct[x] {
			cells[x] = true
		} else if direct != nil {
			// heap allocation writes zero values into the typed heaps
			g.addrWrites(x, cells, heaps, direct)
		}
	case *ssa.MakeSlice:
		hn, _ := g.elemHeap(x.Type().Underlying().(*types.Slice).Elem())
		heaps[hn] = true
	case *ssa.MakeMap:
		mt := x.Type().Underlying().(*types.Map)
		dn, vn, cn, _, _ := g.mapHeaps(mt)
		heaps[dn], heaps[vn], heaps[cn] = true, true, true
	case *ssa.Slice:
		if pt, ok := x.X.Type().Underlying().(*types.Pointer); ok {
			if at, ok := pt.Elem().Underlying().(*types.Array); ok {
				hn, _ := g.elemHeap(at.Elem())
				heaps[hn] = true
			}
		}
	case *ssa.Convert:
		if sl, ok := x.Type().Underlying().(*types.Slice); ok {
			hn, _ := g.elemHeap(sl.Elem())
			heaps[hn] = true
		}
	case *ssa.Call:
		g.callWrites(x.Common(), cells, heaps, direct)
	case *ssa.Defer:
		g.callWrites(&x.Call, cells, heaps, direct)
	case *ssa.Go:
		// a detached thread (contract marked 'thread') runs concurrently: its writes are interference
		// (A-SEQ), not part of the spawner's sequential effect
		if !g.isThreadCallee(x.Call.Value) {
			g.callWrites(&x.Call, cells, heaps, direct)
		}
	case *ssa.RunDefers:
		for _, b := range fn.Blocks {
			for _, i2 := range b.Instrs {
				if d, ok := i2.(*ssa.Defer); ok {
					g.callWrites(&d.Call, cells, heaps, direct)
				}
			}
		}
	case *ssa.MakeClosure:
		// bound variables are heap cells; closure may run later
		if f, ok := x.Fn.(*ssa.Function); ok && !g.isThreadCallee(x) {
			for k := range g.modOf(f) {
				heaps[k] = true
			}
		}
	}
}

// isThreadCallee: v is a function (or closure over one) whose contract is marked 'thread'.
func (g *Gen) isThreadCallee(v ssa.Value) bool {
	var f *ssa.Function
	switch x := v.(type) {
	case *ssa.Function:
		f = x
	case *ssa.MakeClosure:
		f, _ = x.Fn.(*ssa.Function)
	}
	if f == nil {
		return false
	}
	con := g.spec.Contracts[funcKey(f)]
	return con != nil && con.Thread
}

func (g *Gen) addrWrites(addr ssa.Value, cells map[*ssa.Alloc]bool, heaps map[string]bool, direct map[*ssa.Alloc]bool) {
	switch a := addr.(type) {
	case *ssa.Alloc:
		if direct != nil && direct[a] {
			cells[a] = true
			return
		}
		if direct == nil && isDirectAlloc(a) {
			return
		}
		g.typeHeaps(deref(a.Type()), heaps)
	case *ssa.FieldAddr:
		if prefix, ft, ok := g.fieldAddrPrefix(a, direct); ok {
			for _, lf := range g.leavesOf(prefix, ft) {
				heaps[lf.name] = true
			}
			return
		}
		if isPlaceInstr(a.X, direct) {
			g.addrWrites(a.X, cells, heaps, direct)
			return
		}
		for _, lf := range g.fieldLeaves(deref(a.X.Type()), a.Field) {
			heaps[lf.name] = true
		}
	case *ssa.IndexAddr:
		if sl, ok := a.X.Type().Underlying().(*types.Slice); ok {
			hn, _ := g.elemHeap(sl.Elem())
			heaps[hn] = true
			return
		}
		if isPlaceInstr(a.X, direct) {
			g.addrWrites(a.X, cells, heaps, direct)
			return
		}
		hn, _ := g.cellHeap(deref(a.X.Type()))
		heaps[hn] = true
	case *ssa.Global:
		t := deref(a.Type())
		pk := ""
		if a.Pkg != nil && a.Pkg.Pkg.Path() != "github.com/absfs/absnfs" {
			pk = sanitize(a.Pkg.Pkg.Path()) + "."
		}
		_ = t
		heaps["G$"+pk+a.Name()] = true
	default:
		g.typeHeaps(deref(addr.Type()), heaps)
	}
}

func isPlaceInstr(v ssa.Value, direct map[*ssa.Alloc]bool) bool {
	switch a := v.(type) {
	case *ssa.FieldAddr:
		return true
	case *ssa.IndexAddr:
		_, isSlice := a.X.Type().Underlying().(*types.Slice)
		return !isSlice
	case *ssa.Alloc:
		if direct != nil {
			return direct[a]
		}
		return isDirectAlloc(a)
	}
	return false
}

// typeHeaps: heaps holding a value of type t stored through a pointer to t.
func (g *Gen) typeHeaps(t types.Type, heaps map[string]bool) {
	if _, ok := t.Underlying().(*types.Struct); ok {
		for _, lf := range g.structLeaves(t) {
			heaps[lf.name] = true
		}
		return
	}
	hn, _ := g.cellHeap(t)
	heaps[hn] = true
}

// fieldAddrPrefix: heap-name prefix and type of the location designated by a chain of FieldAddr
// instructions starting at a first-class pointer to a struct.
func (g *Gen) fieldAddrPrefix(a *ssa.FieldAddr, direct map[*ssa.Alloc]bool) (string, types.Type, bool) {
	st := deref(a.X.Type()).Underlying().(*types.Struct)
	ft := st.Field(a.Field).Type()
	if inner, ok := a.X.(*ssa.FieldAddr); ok {
		p, _, ok := g.fieldAddrPrefix(inner, direct)
		if !ok {
			return "", nil, false
		}
		return p + "." + st.Field(a.Field).Name(), ft, true
	}
	if isPlaceInstr(a.X, direct) {
		return "", nil, false
	}
	name, _ := g.fieldHeap(deref(a.X.Type()), a.Field)
	return name, ft, true
}

func (g *Gen) callWrites(c *ssa.CallCommon, cells map[*ssa.Alloc]bool, heaps map[string]bool, direct map[*ssa.Alloc]bool) {
	if b, ok := c.Value.(*ssa.Builtin); ok {
		switch b.Name() {
		case "append", "copy":
			if sl, ok := c.Args[0].Type().Underlying().(*types.Slice); ok {
				hn, _ := g.elemHeap(sl.Elem())
				heaps[hn] = true
			}
		case "delete", "clear":
			if mt, ok := c.Args[0].Type().Underlying().(*types.Map); ok {
				dn, vn, cn, _, _ := g.mapHeaps(mt)
				heaps[dn], heaps[vn], heaps[cn] = true, true, true
			}
		}
		return
	}
	// arguments that are addresses of direct cells: the callee may write them (handled by primitives)
	for _, a := range c.Args {
		if al, ok := a.(*ssa.Alloc); ok && direct != nil && direct[al] {
			cells[al] = true
		}
	}
	keys := calleeKeys(c)
	if g.isPrimitiveKey(keys) {
		for k := range g.primitiveWrites(keys, c) {
			heaps[k] = true
		}
		return
	}
	var con *Contract
	for _, k := range keys {
		if cc, ok := g.spec.Contracts[k]; ok {
			con = cc
			break
		}
	}
	if c.IsInvoke() {
		if con != nil && con.HasMod {
			for k := range g.contractModNames(con, nil, c) {
				heaps[k] = true
			}
			return
		}
		for k := range g.modOfInvoke(c) {
			heaps[k] = true
		}
		return
	}
	switch f := c.Value.(type) {
	case *ssa.Function:
		if con != nil && con.HasMod {
			for k := range g.contractModNames(con, f, c) {
				heaps[k] = true
			}
			return
		}
		if f.Blocks == nil {
			g.extWrites(c, heaps)
			return
		}
		for k := range g.modOf(f) {
			heaps[k] = true
		}
	case *ssa.MakeClosure:
		if fn, ok := f.Fn.(*ssa.Function); ok {
			if con := g.spec.Contracts[funcKey(fn)]; con != nil && con.HasMod {
				for k := range g.contractModNames(con, fn, c) {
					heaps[k] = true
				}
				return
			}
			for k := range g.modOf(fn) {
				heaps[k] = true
			}
		}
	default:
		if k := g.funcTypeKey(c.Value.Type()); k != "" {
			if tc := g.spec.Contracts[k]; tc.HasMod {
				for h := range g.contractModNames(tc, nil, c) {
					heaps[h] = true
				}
				return
			}
			// no declared frame: the union of what the implementers write
			for _, f := range g.funcTypeImpl[k] {
				for h := range g.modOf(f) {
					heaps[h] = true
				}
			}
			return
		}
		// unknown function value (A-CALLBACK): writes memory reachable from its arguments
		g.extWrites(c, heaps)
	}
}

func (g *Gen) extWrites(c *ssa.CallCommon, heaps map[string]bool) {
	seen := map[string]bool{}
	if c.IsInvoke() {
		g.reachableHeaps(c.Value.Type(), heaps, seen, 0, true)
	}
	for _, a := range c.Args {
		g.reachableHeaps(a.Type(), heaps, seen, 0, true)
	}
}

// reachableHeaps: heaps writable by external code holding a value of type t.
func (g *Gen) reachableHeaps(t types.Type, heaps map[string]bool, seen map[string]bool, depth int, top bool) {
	k := typeKey(t)
	if seen[k] || depth > 4 {
		return
	}
	seen[k] = true
	switch u := t.Underlying().(type) {
	case *types.Pointer:
		et := u.Elem()
		g.typeHeaps(et, heaps)
		if st, ok := et.Underlying().(*types.Struct); ok {
			for i := 0; i < st.NumFields(); i++ {
				g.reachableHeaps(st.Field(i).Type(), heaps, seen, depth+1, false)
			}
		} else {
			g.reachableHeaps(et, heaps, seen, depth+1, false)
		}
	case *types.Slice:
		hn, _ := g.elemHeap(u.Elem())
		heaps[hn] = true
		g.reachableHeaps(u.Elem(), heaps, seen, depth+1, false)
	case *types.Map:
		dn, vn, cn, _, _ := g.mapHeaps(u)
		heaps[dn], heaps[vn], heaps[cn] = true, true, true
		g.reachableHeaps(u.Elem(), heaps, seen, depth+1, false)
	case *types.Struct:
		for i := 0; i < u.NumFields(); i++ {
			g.reachableHeaps(u.Field(i).Type(), heaps, seen, depth+1, false)
		}
	case *types.Array:
		g.reachableHeaps(u.Elem(), heaps, seen, depth+1, false)
	case *types.Interface:
		// dynamic value may be a repo type whose methods the callee invokes
		for k := range g.modOfInterface(u) {
			heaps[k] = true
		}
	case *types.Signature:
		// function value: callee may call it
		heaps["*"] = true
	}
}
